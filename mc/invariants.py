"""E3: the C01 oracle — both directions of every use-def / ownership relation,
evaluated through public accessors on the closure of a set of root objects."""

from __future__ import annotations

from onnx_ir import _core

from mc.snapshot import Registry, closure


def _graphs_of(objs):
    return [o for o in objs if isinstance(o, _core.Graph)]


def check_links(roots, reg: Registry | None = None) -> list[tuple[str, str]]:
    """Return [(clause, detail)] for every violated relation; [] when consistent."""
    reg = reg or Registry()
    objs = closure(roots, reg)
    tok = reg.token
    out: list[tuple[str, str]] = []
    values = [o for o in objs if isinstance(o, _core.Value)]
    nodes = [o for o in objs if isinstance(o, _core.Node)]
    graphs = _graphs_of(objs)
    zombies = getattr(reg, "zombies", {})
    if zombies:
        for z in zombies.values():
            if isinstance(z, _core.Node):
                out.append(("value_names_a_half_constructed_node_as_its_producer", f"a Node({z.op_type!r}) whose constructor raised is still the producer of a value"))
            else:
                out.append(("object_refers_to_half_constructed_graph", f"{tok(z)} (its constructor raised) is still referenced"))
        graphs = [g for g in graphs if id(g) not in zombies]

    # 1. uses <=> inputs
    for n in nodes:
        for i, v in enumerate(n.inputs):
            if v is None:
                continue
            if not any(u.node is n and u.idx == i for u in v.uses()):
                out.append(("input_without_use", f"{tok(n)}.inputs[{i}] is {tok(v)} but {tok(v)}.uses() lacks it"))
    for v in values:
        seen = set()
        for u in v.uses():
            key = (id(u.node), u.idx)
            if key in seen:
                out.append(("duplicate_use", f"{tok(v)} lists ({tok(u.node)},{u.idx}) twice"))
            seen.add(key)
            ins = u.node.inputs
            if not (0 <= u.idx < len(ins)) or ins[u.idx] is not v:
                out.append(("use_without_input", f"{tok(v)}.uses() has ({tok(u.node)},{u.idx}) but that input is not it"))
        cons = v.consumers()
        if {id(c) for c in cons} != {id(u.node) for u in v.uses()}:
            out.append(("consumers_mismatch", f"{tok(v)}.consumers() disagrees with uses()"))

    # 2. outputs <=> producer/index
    for n in nodes:
        for k, v in enumerate(n.outputs):
            if v.producer() is not n or v.index() != k:
                out.append(("output_wrong_producer", f"{tok(n)}.outputs[{k}]={tok(v)} reports producer {tok(v.producer())} index {v.index()}"))
    for v in values:
        p = v.producer()
        if p is not None:
            k = v.index()
            outs = p.outputs
            if k is None or not (0 <= k < len(outs)) or outs[k] is not v:
                out.append(("producer_without_output", f"{tok(v)} names producer {tok(p)}[{k}] which does not hold it"))
        elif v.index() is not None:
            out.append(("index_without_producer", f"{tok(v)} has no producer but reports index {v.index()}"))

    # 3. node.graph <=> membership exactly once; sequence protocol agreement
    for g in graphs:
        lst = list(g)
        ids = [id(x) for x in lst]
        if len(set(ids)) != len(ids):
            out.append(("node_listed_twice", f"{tok(g)} lists a node twice"))
        if len(g) != len(lst):
            out.append(("len_mismatch", f"len({tok(g)})={len(g)} but iterates {len(lst)}"))
        rev = list(reversed(g))
        if [id(x) for x in rev] != ids[::-1]:
            out.append(("reversed_mismatch", f"reversed({tok(g)}) disagrees with iteration"))
        for i in range(len(lst)):
            try:
                if g[i] is not lst[i] or g[i - len(lst)] is not lst[i]:
                    out.append(("index_mismatch", f"{tok(g)}[{i}] disagrees with iteration"))
            except Exception as e:  # noqa: BLE001
                out.append(("index_raises", f"{tok(g)}[{i}] raised {type(e).__name__}"))
        for x in lst:
            if x.graph is not g:
                out.append(("member_wrong_graph", f"{tok(x)} is in {tok(g)} but names graph {tok(x.graph)}"))
    for n in nodes:
        g = n.graph
        if g is not None and id(g) not in zombies:
            c = sum(1 for x in g if x is n)
            if c != 1:
                out.append(("graph_without_membership", f"{tok(n)} names {tok(g)} which lists it {c} times"))

    # 4/5. flags <=> collections; initializer keys; no producer for inputs/initializers
    for g in graphs:
        for v in g.inputs:
            if not v.is_graph_input() or v.graph is not g:
                out.append(("input_member_without_flag", f"{tok(v)} in {tok(g)}.inputs: is_graph_input={v.is_graph_input()} graph={tok(v.graph)}"))
            if v.producer() is not None:
                out.append(("input_has_producer", f"{tok(v)} in {tok(g)}.inputs has producer {tok(v.producer())}"))
        for v in g.outputs:
            if not v.is_graph_output() or v.graph is not g:
                out.append(("output_member_without_flag", f"{tok(v)} in {tok(g)}.outputs: is_graph_output={v.is_graph_output()} graph={tok(v.graph)}"))
        for k, v in g.initializers.items():
            if not v.is_initializer() or v.graph is not g:
                out.append(("initializer_member_without_flag", f"{tok(v)} in {tok(g)}.initializers: is_initializer={v.is_initializer()} graph={tok(v.graph)}"))
            if k != v.name:
                out.append(("initializer_key_not_name", f"{tok(g)}.initializers[{k!r}] is {tok(v)} named {v.name!r}"))
            if v.producer() is not None:
                out.append(("initializer_has_producer", f"{tok(v)} in {tok(g)}.initializers has producer {tok(v.producer())}"))
    for v in values:
        g = v.graph
        if id(g) in zombies:
            continue
        if v.is_graph_input():
            if g is None or not isinstance(g, _core.Graph) or not any(x is v for x in g.inputs):
                out.append(("input_flag_without_membership", f"{tok(v)}.is_graph_input() but not in {tok(g)}.inputs"))
        if v.is_graph_output():
            if g is None or not isinstance(g, _core.Graph) or not any(x is v for x in g.outputs):
                out.append(("output_flag_without_membership", f"{tok(v)}.is_graph_output() but not in {tok(g)}.outputs"))
        if v.is_initializer():
            if g is None or not isinstance(g, _core.Graph) or not any(x is v for x in g.initializers.values()):
                out.append(("initializer_flag_without_membership", f"{tok(v)}.is_initializer() but not in {tok(g)}.initializers"))
    # de-duplicate, keep order
    seen = set()
    res = []
    for c in out:
        if c not in seen:
            seen.add(c)
            res.append(c)
    return res
