"""C15 — generated names never collide; name fixing yields unique names only; bulk rename is atomic.

(a) name authority: every add/remove/re-add history up to a depth over explicit names shaped like
    generated ones; (b) NameFixPass on every small model over a colliding name alphabet (main graph,
    If body, model-local function); (c) rename_values on every assignment of <= 3 names to <= 3 values
    (swaps, cycles, duplicates, '', initializers of several graphs).
"""

from __future__ import annotations

import itertools

import numpy as np
import onnx_ir as ir
from onnx_ir import convenience as ir_conv
from onnx_ir.passes.common import naming

from mc import common
from mc.props import c13
from mc.snapshot import Registry


# ---------------------------------------------------------------------------
# (a) name authority histories

A_NODE_NAMES = (None, "node_A_0", "node_A_1", "node_B_1")
A_OUT_NAMES = (None, "val_0", "val_1", "val_3")
A_SEEDS = {
    "plain": (["x"], []),
    "generated_like_inputs": (["val_0"], ["val_1"]),
    "generated_like_initializer_only": (["x"], ["val_2"]),
}


def a_ops(n_existing):
    ops = []
    for op_type in ("A", "B"):
        for nn in A_NODE_NAMES:
            for on in A_OUT_NAMES:
                ops.append(("add", op_type, nn, on, "append"))
    ops.append(("add", "A", None, None, "ctor"))
    ops.append(("add", "A", None, None, "insert_before"))
    ops.append(("add", "B", None, None, "extend2"))
    for i in range(n_existing):
        ops.append(("remove", i))
        ops.append(("remove_safe", i))
        ops.append(("readd", i))
        ops.append(("unname_readd", i))
    return ops


def a_run(seed, history):
    """Returns list of violations."""
    ins, inits = A_SEEDS[seed]
    inputs = [ir.Value(name=n) for n in ins]
    ivals = [ir.Value(name=n, const_value=ir.Tensor(np.array([1.0], dtype=np.float32), name=n)) for n in inits]
    g = ir.Graph(inputs, [], nodes=[], initializers=ivals, name="g")
    seen_v = set(ins) | set(inits)
    seen_n: set = set()
    nodes = []
    out = []

    def note_added(n, explicit_node_name, explicit_out_names):
        # explicit names must be untouched; generated names must be fresh
        if explicit_node_name is not None:
            if n.name != explicit_node_name:
                out.append(("explicit_node_name_altered", (explicit_node_name, n.name)))
        else:
            if not n.name:
                out.append(("node_left_unnamed", None))
            elif n.name in seen_n:
                out.append(("generated_node_name_collides", n.name))
        seen_n.add(n.name)
        for o, en in zip(n.outputs, explicit_out_names):
            if en is not None:
                if o.name != en:
                    out.append(("explicit_value_name_altered", (en, o.name)))
            else:
                if not o.name:
                    out.append(("value_left_unnamed", None))
                elif o.name in seen_v:
                    out.append(("generated_value_name_collides", o.name))
            seen_v.add(o.name)

    for op in history:
        try:
            if op[0] == "add":
                _, op_type, nn, on, how = op
                if how == "extend2":
                    n1 = ir.Node("", op_type, [inputs[0]], name=nn)
                    n2 = ir.Node("", "A", [n1.outputs[0]], name=None)
                    n1.outputs[0].name = on
                    g.extend([n1, n2])
                    note_added(n1, nn, [on])
                    note_added(n2, None, [None])
                    nodes += [n1, n2]
                    continue
                if how == "ctor":
                    n = ir.Node("", op_type, [inputs[0]], name=nn, graph=g)
                else:
                    n = ir.Node("", op_type, [inputs[0]], name=nn)
                    n.outputs[0].name = on
                    if how == "append" or not len(g):
                        g.append(n)
                    else:
                        g.insert_before(g[0], n)
                note_added(n, nn, [on if how != "ctor" else None])
                nodes.append(n)
            elif op[0] == "remove":
                n = nodes[op[1]]
                if n.graph is g:
                    g.remove(n)
            elif op[0] == "remove_safe":
                n = nodes[op[1]]
                if n.graph is g:
                    try:
                        g.remove(n, safe=True)
                    except ValueError:
                        pass  # still in use: a rejected removal changes nothing (C06)
            elif op[0] in ("readd", "unname_readd"):
                n = nodes[op[1]]
                if n.graph is g:
                    g.remove(n)
                if op[0] == "unname_readd":
                    n.name = None
                    for o in n.outputs:
                        o.name = None
                    en, eo = None, [None] * len(n.outputs)
                else:
                    en, eo = n.name, [o.name for o in n.outputs]
                    # a re-added node keeps its names: they were registered before, that is not a collision
                    seen_n.discard(en)
                    for x in eo:
                        seen_v.discard(x)
                g.append(n)
                note_added(n, en, eo)
        except IndexError:
            return None  # op refers to a node that does not exist in this history
        except Exception as e:  # noqa: BLE001
            out.append(("name_authority_call_raises", f"{op}: {type(e).__name__}: {e}"[:120]))
            break
    return out


def _a_work(task):
    seed, first, depth = task
    n = 0
    found = {}
    stack = [[first]]
    while stack:
        h = stack.pop()
        v = a_run(seed, h)
        if v is None:
            continue
        n += 1
        for clause, detail in v:
            key = f"authority|{clause}|{h[-1][0]}"
            found.setdefault(key, {"part": "name_authority", "seed": seed, "history": h, "clause": clause, "detail": detail})
        if len(h) < depth and not v:
            nexist = sum(2 if o[0] == "add" and o[4] == "extend2" else 1 for o in h if o[0] == "add")
            for o in a_ops(nexist):
                stack.append(h + [o])
    return n, found


# ---------------------------------------------------------------------------
# (b) NameFixPass on small models

B_VALUE_NAMES = (None, "", "a", "a_1", "v", "v_1")
B_NODE_NAMES = (None, "n", "n_1", "node")


def b_build(vnames, nnames, body_names, fn_names, main_dup_init):
    """main: input i0, initializer w0, n0(i0, w0) -> o0, IF(c) {bn(i0, bi) -> bo}, n1(o0) -> o1; function F(fi): fn(fi) -> fo."""
    i0, w0n, o0n, o1n = vnames
    i0v = ir.Value(name="tmp_i0")
    c = ir.Value(name="cond")
    w0 = ir.Value(name=w0n or "tmp_w0", const_value=ir.Tensor(np.array([1.0], dtype=np.float32)))
    n0 = ir.Node("", "Add", [i0v, w0], name=nnames[0])
    n1 = ir.Node("", "Relu", [n0.outputs[0]], name=nnames[1])
    bi_name, bo_name, bn_name = body_names
    bi = ir.Value(name=bi_name or "tmp_bi", const_value=ir.Tensor(np.array([2.0], dtype=np.float32)))
    bn = ir.Node("", "Mul", [i0v, bi], name=bn_name)
    body = ir.Graph([], [bn.outputs[0]], nodes=[bn], initializers=[bi], name="body")
    ifn = ir.Node("", "If", [c], [ir.AttrGraph("then_branch", body)], name="if")
    inits = [w0]
    if main_dup_init:
        # a second main-graph initializer: "dup", or (given as a string) a name from the colliding alphabet
        second = main_dup_init if isinstance(main_dup_init, str) else "dup"
        inits.append(ir.Value(name=second, const_value=ir.Tensor(np.array([3.0], dtype=np.float32))))
    g = ir.Graph([i0v, c], [n1.outputs[0], ifn.outputs[0]], nodes=[n0, ifn, n1], initializers=inits, name="main", opset_imports={"": 20, "local": 1})
    # names are applied after construction (the constructor names unnamed inputs itself)
    i0v.name = i0
    n0.outputs[0].name = o0n
    n1.outputs[0].name = o1n
    bn.outputs[0].name = bo_name
    ifn.outputs[0].name = "if_out"
    fi = ir.Value(name="tmp_fi")
    fnode = ir.Node("", "Neg", [fi], name=fn_names[2])
    fg = ir.Graph([fi], [fnode.outputs[0]], nodes=[fnode], name="fg", opset_imports={"": 20})
    fi.name = fn_names[0]
    fnode.outputs[0].name = fn_names[1]
    f = ir.Function("local", "F", "", graph=fg, attributes=[])
    return ir.Model(g, ir_version=10, functions=[f])


def _scopes(model):
    """[(graph, [enclosing graphs outermost first])] for every graph incl. function bodies."""
    out = []

    def walk(g, chain):
        out.append((g, list(chain)))
        for n in g:
            for a in n.attributes.values():
                if isinstance(a, ir.Attr) and not a.is_ref():
                    if a.type == ir.AttributeType.GRAPH:
                        walk(a.value, chain + [(g, n)])
                    elif a.type == ir.AttributeType.GRAPHS:
                        for x in a.value:
                            walk(x, chain + [(g, n)])

    walk(model.graph, [])
    for f in model.functions.values():
        walk(f.graph, [])
    return out


def _graph_values(g):
    vals = []
    for v in list(g.inputs) + list(g.initializers.values()) + list(g.outputs):
        if not any(v is x for x in vals):
            vals.append(v)
    for n in g:
        for v in n.outputs:
            if not any(v is x for x in vals):
                vals.append(v)
    return vals


def name_free_form(model, reg):
    """Everything but names; object tokens come from one registry shared by the before/after forms."""
    snap = []
    for o in c13._objs([model.graph] + list(model.functions.values())):
        t = reg.token(o)
        if isinstance(o, ir.Value):
            rec = list(c13.value_rec(o, reg, False))
            rec[1] = None
            if rec[4] is not None:
                rec[4] = rec[4][:2] + rec[4][3:]
            snap.append((t, tuple(rec)))
        elif isinstance(o, ir.Node):
            rec = list(c13.node_rec(o, reg, False))
            rec[1] = None
            snap.append((t, tuple(rec)))
        elif isinstance(o, ir.Graph):
            rec = list(c13.graph_rec(o, reg))
            rec[6] = tuple(sorted(tok for _, tok in rec[6]))  # initializer keys are names; renaming re-inserts the entry
            snap.append((t, tuple(rec)))
    return sorted(snap)


def b_check(model):
    out = []
    # names that are unique across the whole model before the pass must be kept
    all_vals, all_nodes = [], []
    for g, _ in _scopes(model):
        all_vals += [v for v in _graph_values(g) if not any(v is x for x in all_vals)]
        all_nodes += list(g)
    vcount, ncount = {}, {}
    for v in all_vals:
        vcount[v.name] = vcount.get(v.name, 0) + 1
    for n in all_nodes:
        ncount[n.name] = ncount.get(n.name, 0) + 1
    keep_v = [(v, v.name) for v in all_vals if v.name and vcount[v.name] == 1]
    keep_n = [(n, n.name) for n in all_nodes if n.name and ncount[n.name] == 1]
    reg = Registry()
    before = name_free_form(model, reg)
    try:
        res = naming.NameFixPass()(model)
    except Exception as e:  # noqa: BLE001
        return [("name_fix_pass_raises", f"{type(e).__name__}: {e}"[:160])]
    if res.model is not model:
        out.append(("in_place_pass_returned_another_model", None))
    after = name_free_form(model, reg)
    if before != after:
        d = [(a[0], i) for a, b in zip(before, after) if a != b for i, (x, y) in enumerate(zip(a[1], b[1])) if x != y][:3]
        out.append(("something_other_than_names_changed", d))
    for g, chain in _scopes(model):
        vals = _graph_values(g)
        names = [v.name for v in vals]
        if any(not nm for nm in names):
            out.append(("value_without_name_after_fix", g.name))
        if len(set(names)) != len(names):
            out.append(("duplicate_value_names_in_graph", (g.name, sorted((repr(nm) for nm in names if names.count(nm) > 1))[:3])))
        nn = [n.name for n in g]
        if any(not x for x in nn):
            out.append(("node_without_name_after_fix", g.name))
        if len(set(nn)) != len(nn):
            out.append(("duplicate_node_names_in_graph", (g.name, sorted((repr(x) for x in nn if nn.count(x) > 1))[:3])))
        for k, v in g.initializers.items():
            if k != v.name:
                out.append(("initializer_not_keyed_by_current_name", (k, v.name)))
        # visible enclosing-scope values (weakest reading): inputs/initializers of enclosing graphs, outputs of
        # nodes preceding the enclosing node, and values actually captured
        visible = []
        for eg, enode in chain:
            visible += list(eg.inputs) + list(eg.initializers.values())
            for n in eg:
                if n is enode:
                    break
                visible += list(n.outputs)
        for n in g:
            for v in n.inputs:
                if v is not None and not any(v is x for x in vals):
                    visible.append(v)
        mine = {id(v) for v in vals}
        for ov in visible:
            if id(ov) in mine:
                continue
            if ov.name in names:
                out.append(("value_name_equals_visible_outer_value", (g.name, ov.name)))
                break
    for v, nm in keep_v:
        if v.name != nm:
            out.append(("already_unique_value_name_changed", (nm, v.name)))
            break
    for n, nm in keep_n:
        if n.name != nm:
            out.append(("already_unique_node_name_changed", (nm, n.name)))
            break
    if res.modified is False and [v.name for v in all_vals] != [v.name for v in all_vals]:
        pass
    try:
        res2 = naming.NameFixPass()(model)
        if res2.modified:
            out.append(("second_run_reports_modified", None))
    except Exception as e:  # noqa: BLE001
        out.append(("second_run_raises", f"{type(e).__name__}: {e}"[:120]))
    if out:
        return out
    # one pass object used again after the model was edited: clashes re-introduced between two runs of the SAME
    # object (every value in turn takes the name of the next value of its graph; a node takes its neighbour's name)
    pass_obj = naming.NameFixPass()
    try:
        pass_obj(model)
        for g, _ in _scopes(model):
            vals = [v for v in _graph_values(g) if not v.is_initializer()]
            for a, b in zip(vals, vals[1:]):
                a.name = b.name
                break
            nodes_ = list(g)
            if len(nodes_) > 1:
                nodes_[0].name = nodes_[1].name
        res3 = pass_obj(model)
    except Exception as e:  # noqa: BLE001
        return out + [("reused_pass_object_raises", f"{type(e).__name__}: {e}"[:120])]
    clash = False
    for g, _ in _scopes(model):
        names = [v.name for v in _graph_values(g)]
        nn = [n.name for n in g]
        if len(set(names)) != len(names) or any(not x for x in names):
            out.append(("duplicate_value_names_after_second_use_of_the_same_pass_object", (g.name, sorted(repr(x) for x in names if names.count(x) > 1)[:3])))
            clash = True
        if len(set(nn)) != len(nn) or any(not x for x in nn):
            out.append(("duplicate_node_names_after_second_use_of_the_same_pass_object", (g.name, sorted(repr(x) for x in nn if nn.count(x) > 1)[:3])))
            clash = True
    del res3, clash
    return out


def _b_work(task):
    vn_first, tier = task
    n = 0
    found = {}
    rest = list(itertools.product(B_VALUE_NAMES, repeat=3))
    node_opts = [(None, None), ("n", "n"), ("n", None), ("n_1", "n"), ("node", None)]
    body_opts = [("w", "o", "b"), (None, None, None), ("a", "a", "n"), ("v", "", None)] if tier == "quick" else \
        [(bi, bo, bn) for bi in ("w", None, "a", "v") for bo in ("o", None, "", "a", "v_1") for bn in ("b", None, "n")]
    fn_opts = [("fi", "fo", "fn"), (None, None, None), ("a", "a", "n"), ("", "fi", None)]
    for r3 in rest:
        vnames = (vn_first,) + r3
        if vnames[1] in (None, ""):
            # an initializer cannot be unnamed: use the value name 'w0' instead (covered by the other choices)
            vnames = (vnames[0], "w0") + vnames[2:]
        for nnames in node_opts:
            for body_names in body_opts:
                for fn_names in (fn_opts if tier == "thorough" or nnames == node_opts[0] else fn_opts[:2]):
                    variants = [vnames[2] == "a_1"]
                    if nnames == node_opts[0] and body_names == body_opts[0]:
                        # a second initializer whose name is what the pass would generate for a clash on the first one
                        variants += [x for x in ("a_1", "v_1", "w0_1", "a") if x != vnames[1]]
                    for dup in variants:
                        try:
                            model = b_build(vnames, nnames, body_names, fn_names, main_dup_init=dup)
                        except Exception:  # noqa: BLE001  the combination cannot be constructed (e.g. initializer name clash)
                            continue
                        n += 1
                        for clause, detail in b_check(model):
                            key = f"namefix|{clause}"
                            if clause.startswith("already_unique_") and isinstance(detail, tuple):
                                import re

                                key += "|generated_shape" if re.fullmatch(r"(v|node|.*_[0-9]+)", str(detail[0])) else "|other_name"
                            found.setdefault(key, {"part": "NameFixPass", "names": [vnames, nnames, body_names, fn_names, dup], "clause": clause, "detail": detail})
                    continue
                    for clause, detail in b_check(model):
                        key = f"namefix|{clause}"
                        if clause.startswith("already_unique_") and isinstance(detail, tuple):
                            import re

                            key += "|generated_shape" if re.fullmatch(r"(v|node|.*_[0-9]+)", str(detail[0])) else "|other_name"
                        found.setdefault(key, {"part": "NameFixPass", "names": [vnames, nnames, body_names, fn_names], "clause": clause, "detail": detail})
    return n, found


# ---------------------------------------------------------------------------
# (c) rename_values

def c_world():
    A = ir.Value(name="a", const_value=ir.Tensor(np.array([1.0], dtype=np.float32), name="a"))
    B = ir.Value(name="b", const_value=ir.Tensor(np.array([2.0], dtype=np.float32), name="b"))
    C = ir.Value(name="c", const_value=ir.Tensor(np.array([3.0], dtype=np.float32), name="c"))
    C2 = ir.Value(name="c2", const_value=ir.Tensor(np.array([4.0], dtype=np.float32), name="c2"))
    E = ir.Value(name="e")
    cond = ir.Value(name="cond")
    bn = ir.Node("", "Add", [C, E], name="bn")
    bn.outputs[0].name = "bo"
    body = ir.Graph([], [bn.outputs[0]], nodes=[bn], initializers=[C, C2], name="body")
    n0 = ir.Node("", "Mul", [A, B], name="n0")
    n0.outputs[0].name = "d"
    ifn = ir.Node("", "If", [cond], [ir.AttrGraph("then_branch", body)], name="if")
    ifn.outputs[0].name = "r"
    # B is an initializer that is also listed as a graph input (an overridable default)
    g = ir.Graph([E, cond, B], [n0.outputs[0], ifn.outputs[0]], nodes=[n0, ifn], initializers=[A, B], name="main", opset_imports={"": 20})
    return ir.Model(g, ir_version=10), {"A": A, "B": B, "C": C, "C2": C2, "D": n0.outputs[0], "E": E}


C_NAMES = ("a", "b", "c", "c2", "d", "x", "")


def c_check(keys, names):
    model, vals = c_world()
    targets = [vals[k] for k in keys]
    reg = Registry()
    roots = [model.graph]

    def snap():
        out = []
        for o in c13._objs(roots):
            t = reg.token(o)
            if isinstance(o, ir.Value):
                out.append((t, c13.value_rec(o, reg, False)))
            elif isinstance(o, ir.Node):
                out.append((t, c13.node_rec(o, reg, False)))
            elif isinstance(o, ir.Graph):
                out.append((t, c13.graph_rec(o, reg)))
        return out

    before = snap()
    try:
        ir_conv.rename_values(targets, list(names))
        exc = None
    except Exception as e:  # noqa: BLE001
        exc = e
    v = []
    if exc is not None:
        after = snap()
        if after != before:
            d = [(a[0], i) for a, b in zip(before, after) if a != b for i, (x, y) in enumerate(zip(a[1], b[1])) if x != y][:3]
            v.append(("rejected_rename_partially_applied", (type(exc).__name__, d)))
        return "raised", v
    want = {}
    for k, nm in zip(keys, names):
        want[k] = nm
    for k, nm in want.items():
        if vals[k].name != nm:
            v.append(("value_does_not_have_its_target_name", (k, nm, vals[k].name)))
    for gname, g in (("main", model.graph), ("body", next(iter(model.graph.subgraphs())))):
        for key, val in g.initializers.items():
            if key != val.name:
                v.append(("initializer_key_does_not_follow", (gname, key, val.name)))
        if not all(val.is_initializer() and val.graph is g for val in g.initializers.values()):
            v.append(("initializer_flags_wrong_after_rename", gname))
    n_init = len(model.graph.initializers) + len(next(iter(model.graph.subgraphs())).initializers)
    if n_init != 4:
        v.append(("initializer_lost_by_rename", n_init))
    return "applied", v


def _c_work(task):
    keys_list = task
    n = 0
    outcomes = {}
    found = {}
    for keys in keys_list:
        for names in itertools.product(C_NAMES, repeat=len(keys)):
            n += 1
            out, v = c_check(keys, names)
            outcomes[out] = outcomes.get(out, 0) + 1
            for clause, detail in v:
                cls = "+".join(sorted({"init" if k in "ABC" or k == "C2" else "plain" for k in keys})) + ("/multi_graph" if any(k in ("C", "C2") for k in keys) and any(k in ("A", "B") for k in keys) else "")
                key = f"rename_values|{clause}|{cls}"
                found.setdefault(key, {"part": "rename_values", "values": keys, "names": names, "clause": clause, "detail": detail})
    return n, outcomes, found


def main(tier):
    r = common.Run("C15", "model_checking", tier)
    depth = 4 if tier == "quick" else 5
    # (a)
    atasks = [(s, o, depth) for s in A_SEEDS for o in a_ops(0)]
    ares = common.pmap(_a_work, common.shuffled(atasks, "c15a"), chunksize=1)
    na = sum(x[0] for x in ares)
    # (b)
    bres = common.pmap(_b_work, [(v, tier) for v in B_VALUE_NAMES], chunksize=1)
    nb = sum(x[0] for x in bres)
    # (c)
    ks = ["A", "B", "C", "C2", "D", "E"]
    subsets = [p for k in (1, 2, 3) for p in itertools.permutations(ks, k)] + [("A", "A"), ("A", "A", "B"), ("C", "A", "C")]
    chunks = [subsets[i::16] for i in range(16)]
    cres = common.pmap(_c_work, chunks, chunksize=1)
    nc = sum(x[0] for x in cres)
    applied = sum(x[1].get("applied", 0) for x in cres)
    found = {}
    for res in (ares, bres):
        for *_, f in res:
            for k, v in f.items():
                found.setdefault(k, v)
    for _, _, f in cres:
        for k, v in f.items():
            found.setdefault(k, v)
    for key, f in sorted(found.items()):
        r.violation(key, f"{f['clause']}: {f['detail']} [{ {k: v for k, v in f.items() if k not in ('clause', 'detail')} }]", {"engine": "E1", "input": {k: v for k, v in f.items() if k not in ("clause", "detail")}, "oracle": f["clause"], "detail": f["detail"]})
    r.sample({"part": "name_authority", "seed": "generated_like_inputs", "history": [("add", "B", "node_A_1", "val_3", "append"), ("add", "A", None, None, "append"), ("remove", 0), ("add", "A", None, None, "append")]})
    r.sample({"part": "rename_values", "values": ["A", "C", "B"], "names": ["b", "a", "a"]})
    r.coverage.update({
        "states": na + nb + nc, "transitions": na * depth + nb * 2 + nc, "traces_validated_against_impl": na + nb + nc,
        "evaluations": na + nb + nc, "distinct_nontrivial": na + applied,
        "rule": "(a) every add/remove/re-add history up to the depth; (b) every small model over the colliding name alphabet; (c) every assignment of <=3 names to <=3 values; distinct_nontrivial = authority histories + rename assignments that were applied",
        "exhaustive": True, "name_authority_histories": na, "name_authority_depth": depth, "name_fix_models": nb, "rename_assignments": nc, "rename_applied": applied,
    })
    r.assumptions += ["names registered by a graph = names of inputs/initializers at construction and of nodes/outputs when they were added; a node re-added with its own names is not a collision",
                      "visible enclosing-scope values (weakest reading): inputs/initializers of enclosing graphs, outputs of nodes preceding the enclosing node, values actually captured"]
    return r.finish()


def replay(obj):
    inp = obj["input"]
    if inp.get("part") == "name_authority":
        v = a_run(inp["seed"], [tuple(o) for o in inp["history"]]) or []
    elif inp.get("part") == "rename_values":
        _, v = c_check(tuple(inp["values"]), tuple(inp["names"]))
    else:
        names = [tuple(x) for x in inp["names"]]
        v = b_check(b_build(names[0], names[1], names[2], names[3], main_dup_init=(names[0][2] == "a_1")))
    bad = [c for c in v if c[0] == obj["oracle"]]
    return (not bad), v[:4]
