"""C19 — device annotations follow object identity and never dangle.

Explicit-state BFS over histories of annotate / rename / rewire / resize / clone / round-trip /
(un)register calls on a small IRv11 model (a body node capturing an outer value; values of known
and unknown rank; two registered configurations), invariant evaluated in every state.
"""

from __future__ import annotations

import hashlib
import pickle

import onnx_ir as ir
from onnx_ir import _multi_device

from mc import common
from mc.snapshot import Registry, diff, snapshot


class W:
    def __init__(self):
        F = ir.TensorType(ir.DataType.FLOAT)
        self.x = ir.Value(name="x", shape=ir.Shape([2, "N"]), type=F)
        self.w = ir.Value(name="w", type=F)  # unknown rank
        self.c = ir.Value(name="c", shape=ir.Shape([]), type=ir.TensorType(ir.DataType.BOOL))
        n0 = ir.Node("", "Add", [self.x, self.w], name="n0")
        n0.outputs[0].name, n0.outputs[0].shape, n0.outputs[0].type = "a", ir.Shape([2, "N"]), F
        n1 = ir.Node("", "Relu", [n0.outputs[0]], name="n1")
        n1.outputs[0].name, n1.outputs[0].type = "b", F
        m0 = ir.Node("", "Mul", [self.x, n0.outputs[0]], name="m0")  # body node capturing outer values
        m0.outputs[0].name, m0.outputs[0].shape, m0.outputs[0].type = "t", ir.Shape([2, "N"]), F
        body = ir.Graph([], [m0.outputs[0]], nodes=[m0], name="then_g")
        body2 = ir.Graph([], [], nodes=[], name="else_g")
        e0 = ir.Node("", "Identity", [self.x], name="e0")
        e0.outputs[0].name = "e"
        body2.append(e0)
        body2.outputs.append(e0.outputs[0])
        n2 = ir.Node("", "If", [self.c], [ir.AttrGraph("then_branch", body), ir.AttrGraph("else_branch", body2)], name="n2")
        n2.outputs[0].name = "r"
        # a model-local function whose body holds an If with a node in its branch (annotations below a function's subgraph)
        fx = ir.Value(name="fx", shape=ir.Shape([2, "N"]), type=F)
        fc = ir.Value(name="fc", shape=ir.Shape([]), type=ir.TensorType(ir.DataType.BOOL))
        fb0 = ir.Node("", "Neg", [fx], name="fb0")
        fb0.outputs[0].name, fb0.outputs[0].shape, fb0.outputs[0].type = "ft", ir.Shape([2, "N"]), F
        fe0 = ir.Node("", "Identity", [fx], name="fe0")
        fe0.outputs[0].name = "fe"
        fthen = ir.Graph([], [fb0.outputs[0]], nodes=[fb0], name="f_then")
        felse = ir.Graph([], [fe0.outputs[0]], nodes=[fe0], name="f_else")
        # reference attributes (scalar and GRAPH typed) listed before the attributes that carry the bodies
        fif = ir.Node("", "If", [fc], [ir.RefAttr("level", "f_level", ir.AttributeType.INT), ir.RefAttr("spare_branch", "f_branch", ir.AttributeType.GRAPH),
                                       ir.AttrGraph("then_branch", fthen), ir.AttrGraph("else_branch", felse)], name="f_if")
        fif.outputs[0].name = "fo"
        fgraph = ir.Graph([fx, fc], [fif.outputs[0]], nodes=[fif], name="F_body", opset_imports={"": 21})
        func = ir.Function("local", "F", "", graph=fgraph, attributes=[ir.Attr("f_level", ir.AttributeType.INT, None), ir.Attr("f_branch", ir.AttributeType.GRAPH, None)])
        n3 = ir.Node("local", "F", [self.x, self.c], name="n3")
        n3.outputs[0].name = "q"
        g = ir.Graph([self.x, self.w, self.c], [n1.outputs[0], n2.outputs[0], n3.outputs[0]], nodes=[n0, n1, n2, n3], name="main", opset_imports={"": 21, "local": 1})
        self.model = ir.Model(g, ir_version=11, functions=[func])
        self.model.add_device_configuration("cfgA", num_devices=2)
        self.model.add_device_configuration("cfgB", num_devices=2, device_names=("d0", "d1"))
        self.foreign = ir.Value(name="foreign")
        self.spare = ir.Value(name="spare", shape=ir.Shape([3]), type=F)

    # slot resolution by name so that it survives clone / round trip
    def all_nodes(self):
        # the harness's own traversal: the library's recursive iterator is one of the things under check
        def walk(g):
            for n in list(g):
                yield n
                for a in n.attributes.values():
                    if a.is_ref():
                        continue
                    if a.type == ir.AttributeType.GRAPH:
                        yield from walk(a.as_graph())
                    elif a.type == ir.AttributeType.GRAPHS:
                        for sg in a.as_graphs():
                            yield from walk(sg)

        out = list(walk(self.model.graph))
        for f in self.model.functions.values():
            out += list(walk(f))
        return out

    def nodes(self):
        return {n.name: n for n in self.all_nodes()}

    def values(self):
        out = {}
        for n in self.all_nodes():
            for v in list(n.inputs) + list(n.outputs):
                if v is not None and v.name:
                    out.setdefault(v.name, v)
        for v in self.model.graph.inputs:
            out.setdefault(v.name, v)
        out.setdefault("foreign", self.foreign)
        out.setdefault("spare", self.spare)
        return out

    def resolve(self, nn, vn):
        """A value by name as seen from node nn: the node's own inputs/outputs first (an inner value may carry
        the name of an outer one), then any value of the model."""
        n = self.nodes().get(nn)
        if n is not None:
            for v in list(n.inputs) + list(n.outputs):
                if v is not None and v.name == vn:
                    return v
        return self.values().get(vn)

    def cfg(self, name):
        for c in self.model.device_configurations:
            if c.name == name:
                return c
        return None


NODE_NAMES = ("n0", "n1", "m0")
LIGHT_NODES = ("e0", "fb0", "n3")  # else-branch node of the main graph's If; branch node of the If inside the function


def enabled(w):
    ops = []
    vals = w.values()
    nodes = w.nodes()
    cfgs = [c.name for c in w.model.device_configurations]
    for nn in NODE_NAMES:
        n = nodes.get(nn)
        if n is None:
            continue
        io = []
        for v in list(n.inputs) + list(n.outputs):
            if v is not None and v.name and v.name not in io:
                io.append(v.name)
        for vn in io + ["foreign"]:
            for cn in cfgs:
                for axis in (-3, -1, 0, 1, 2):
                    for ns in (0, 2):
                        ops.append(("shard", nn, vn, cn, axis, ns, (), None))
                ops.append(("shard", nn, vn, cn, 0, 2, (0,), None))
                ops.append(("shard", nn, vn, cn, 1, 2, (1, 0), 0))
                ops.append(("shard", nn, vn, cn, 0, 2, (), 1))
                ops.append(("shard", nn, vn, cn, 0, 2, (), -1))
        for cn in cfgs:
            for st in (-1, 0, 1):
                ops.append(("stage", nn, cn, st))
        ops.append(("replace_input", nn, 0, "spare"))
        ops.append(("replace_input", nn, 0, None))
        ops.append(("replace_input", nn, 1, "x"))
        ops.append(("replace_input", nn, 0, io[0] if io else None))  # same value again
        for k in (0, 1, 3):
            ops.append(("resize_inputs", nn, k))
            ops.append(("resize_outputs", nn, k))
    for nn in LIGHT_NODES:
        n = nodes.get(nn)
        if n is None:
            continue
        io = []
        for v in list(n.inputs) + list(n.outputs):
            if v is not None and v.name and v.name not in io:
                io.append(v.name)
        for cn in cfgs:
            for vn in io:
                ops.append(("shard", nn, vn, cn, 0, 2, (), None))
            ops.append(("stage", nn, cn, 0))
    for vn in ("x", "a", "w"):
        if vn in vals:
            ops.append(("rename", vn, vn + "_r"))
            ops.append(("rauw", vn, "spare"))
    if "e" in vals:
        ops.append(("rename", "e", "a"))  # a branch-local value takes the name of a value of the enclosing graph
    for cn in ("cfgA", "cfgB", "cfgNew"):
        ops.append(("remove_cfg_by_name", cn))
        ops.append(("remove_cfg_by_obj", cn))
    ops += [("add_cfg", "cfgA", 2), ("add_cfg", "cfgNew", 2), ("add_cfg", "", 2), ("add_cfg", "cfgZ", 0)]
    ops += [("clone",), ("clone_deep",), ("round_trip",)]
    if any(f.domain == "local" for f in w.model.functions.values()):
        ops.append(("inline",))  # the call node n3 (and whatever it was annotated with) is replaced by the function body
    return ops


def apply(w, op):
    k = op[0]
    nodes, vals = w.nodes(), w.values()
    try:
        if k == "shard":
            _, nn, vn, cn, axis, ns, dev, stage = op
            if w.resolve(nn, vn) is None:
                raise KeyError(vn)
            nodes[nn].shard(w.resolve(nn, vn), configuration=w.cfg(cn), axis=axis, num_shards=ns, device_indices=dev, pipeline_stage=stage)
        elif k == "stage":
            nodes[op[1]].set_pipeline_stage(w.cfg(op[2]), op[3])
        elif k == "replace_input":
            nodes[op[1]].replace_input_with(op[2], None if op[3] is None else vals[op[3]])
        elif k == "resize_inputs":
            nodes[op[1]].resize_inputs(op[2])
        elif k == "resize_outputs":
            nodes[op[1]].resize_outputs(op[2])
        elif k == "rename":
            vals[op[1]].name = op[2]
        elif k == "rauw":
            vals[op[1]].replace_all_uses_with(vals[op[2]])
        elif k == "remove_cfg_by_name":
            w.model.remove_device_configuration(op[1], cascade=True)
        elif k == "remove_cfg_by_obj":
            c = w.cfg(op[1])
            if c is None:
                c = _multi_device.ModelConfiguration(op[1], 2)
            w.model.remove_device_configuration(c, cascade=True)
        elif k == "add_cfg":
            w.model.add_device_configuration(op[1], num_devices=op[2])
        elif k == "clone":
            w.model = w.model.clone()
        elif k == "clone_deep":
            w.model = w.model.clone(deep_copy=True)
        elif k == "round_trip":
            w.model = ir.from_proto(ir.to_proto(w.model))
        elif k == "inline":
            from onnx_ir.passes.common import InlinePass

            w.model = InlinePass()(w.model).model
        else:
            raise KeyError(k)
        return ("ret",)
    except (KeyError, AttributeError) as e:
        if isinstance(e, KeyError) and k in ("shard", "stage", "replace_input", "resize_inputs", "resize_outputs", "rename", "rauw") and (op[1] not in nodes and op[1] not in vals):
            return ("skip",)
        return ("exc", type(e).__name__)
    except Exception as e:  # noqa: BLE001
        return ("exc", type(e).__name__)


def must_reject(w, op):
    """Reference decision: is this annotation request invalid per the statement?"""
    if op[0] == "shard":
        _, nn, vn, cn, axis, ns, dev, stage = op
        n = w.nodes().get(nn)
        v = w.resolve(nn, vn)
        cfg = w.cfg(cn)
        if n is None or v is None or cfg is None:
            return None
        if not any(x is v for x in list(n.inputs) + list(n.outputs)):
            return "value is not an input/output of the node"
        if ns < 1:
            return "fewer than one shard"
        if stage is not None and stage < 0:
            return "negative stage"
        rank = len(v.shape) if v.shape is not None else None
        if rank is not None and not (-rank <= axis < rank):
            return "axis out of range"
        norm = (lambda a: a + rank if (rank is not None and a < 0) else a)
        for dc in n.device_configurations:
            if dc.configuration is cfg:
                if stage is not None and dc.pipeline_stage is not None and dc.pipeline_stage != stage:
                    return "conflicting stage"
                for sp in dc.sharding_specs:
                    if sp.value is v and any(norm(sd.axis) == norm(axis) for sd in sp.sharded_dims):
                        return "axis repeated"
        return False
    if op[0] == "stage":
        return "negative stage" if op[3] < 0 else False
    return None


def invariant(w):
    out = []
    model = w.model
    regs = list(model.device_configurations)
    nodes = list(model.graph.all_nodes())
    for f in model.functions.values():
        nodes += list(f.all_nodes())
    for n in nodes:
        io = [v for v in list(n.inputs) + list(n.outputs) if v is not None]
        seen_cfg = []
        for dc in n.device_configurations:
            if dc.configuration is None or not any(dc.configuration is c for c in regs):
                out.append(("annotation_references_unregistered_configuration", f"{n.name}: {getattr(dc.configuration, 'name', None)}"))
            if any(dc.configuration is c for c in seen_cfg):
                out.append(("two_annotations_for_one_configuration", n.name))
            seen_cfg.append(dc.configuration)
            if dc.pipeline_stage is not None and dc.pipeline_stage < 0:
                out.append(("negative_stage_recorded", n.name))
            seen_vals = []
            for sp in dc.sharding_specs:
                if sp.value is None or not any(sp.value is v for v in io):
                    out.append(("annotation_targets_value_that_is_not_io_of_the_node", f"{n.name}: {getattr(sp.value, 'name', None)}"))
                if any(sp.value is v for v in seen_vals):
                    out.append(("two_specs_for_one_value", n.name))
                seen_vals.append(sp.value)
                rank = len(sp.value.shape) if (sp.value is not None and sp.value.shape is not None) else None
                axes = []
                for sd in sp.sharded_dims:
                    if rank is not None and not (-rank <= sd.axis < rank):
                        out.append(("axis_out_of_range_recorded", f"{n.name}: {sd.axis} rank {rank}"))
                    a = sd.axis + rank if (rank is not None and sd.axis < 0) else sd.axis
                    if a in axes:
                        out.append(("axis_recorded_twice", f"{n.name}: {sd.axis}"))
                    axes.append(a)
                    for ss in sd.simple_shardings:
                        if ss.num_shards < 1:
                            out.append(("fewer_than_one_shard_recorded", n.name))
    try:
        msgs = _multi_device._check_device_configurations(model)
        if msgs:
            out.append(("library_device_configuration_check_reports", msgs[:2]))
    except Exception as e:  # noqa: BLE001
        out.append(("library_device_configuration_check_raises", f"{type(e).__name__}: {e}"[:100]))
    # serialised references use current names
    try:
        p = ir.to_proto(model)

        def walk(g):
            for np_ in g.node:
                yield np_
                for a in np_.attribute:
                    if a.HasField("g"):
                        yield from walk(a.g)
                    for gg in a.graphs:
                        yield from walk(gg)

        def walk_all():
            yield from walk(p.graph)
            for fp in p.functions:
                yield from walk(fp)

        cfg_names = {c.name for c in p.configuration}
        for np_ in walk_all():
            names = set(np_.input) | set(np_.output)
            for dc in np_.device_configurations:
                if dc.configuration_id not in cfg_names:
                    out.append(("serialized_configuration_id_not_registered", f"{np_.name}: {dc.configuration_id}"))
                for sp in dc.sharding_spec:
                    if sp.tensor_name not in names:
                        out.append(("serialized_tensor_name_is_not_a_current_io_name", f"{np_.name}: {sp.tensor_name} not in {sorted(names)}"))
        # IR node annotations and serialised ones agree in number
        ir_count = sum(len(dc.sharding_specs) for n in nodes for dc in n.device_configurations)
        pr_count = sum(len(dc.sharding_spec) for np_ in walk_all() for dc in np_.device_configurations)
        if ir_count != pr_count:
            out.append(("serialized_annotation_count_differs", (ir_count, pr_count)))
    except Exception as e:  # noqa: BLE001
        out.append(("serialization_raises", f"{type(e).__name__}: {e}"[:160]))
    return out


def build(history):
    w = W()
    outs = []
    for op in history:
        outs.append(apply(w, op))
        # serialisation is side-effect free (C03), so every history implicitly serialises between calls;
        # this exposes state kept by the serialiser itself (caches keyed by object identity)
        try:
            ir.to_proto(w.model)
        except Exception:  # noqa: BLE001
            pass
    return w, outs


def canon(w):
    reg = Registry()
    s = snapshot([w.model.graph] + list(w.model.functions.values()), reg)
    cfgs = tuple((c.name, c.num_devices, c.device_names) for c in w.model.device_configurations)
    return hashlib.blake2b(pickle.dumps((tuple(sorted(s.items())), cfgs)), digest_size=12).digest()


EDIT_OPS = ("replace_input", "resize_inputs", "resize_outputs", "rename", "rauw", "remove_cfg_by_name", "remove_cfg_by_obj", "clone", "clone_deep", "round_trip")


RT_AFTER = ("rename", "rauw", "replace_input", "resize_inputs", "resize_outputs", "clone", "clone_deep")


def _expand(task):
    history, only_edits = task
    w, _ = build(history)
    out = []
    for op in enabled(w):
        if only_edits and op[0] not in EDIT_OPS:
            continue
        w2, _ = build(history)
        reg = Registry()
        before = snapshot([w2.model.graph, w2.foreign, w2.spare] + list(w2.model.functions.values()), reg)
        cfg_before = tuple(id(c) for c in w2.model.device_configurations)
        rej = must_reject(w2, op)
        res = apply(w2, op)
        if res[0] == "skip":
            continue
        v = []
        if rej and res[0] != "exc":
            v.append(("invalid_request_accepted", f"{op}: {rej}"))
        if res[0] == "exc" and op[0] not in ("clone", "clone_deep", "round_trip"):
            after = snapshot([w2.model.graph, w2.foreign, w2.spare] + list(w2.model.functions.values()), reg)
            d = diff(before, {k: x for k, x in after.items() if k in before})
            if d or tuple(id(c) for c in w2.model.device_configurations) != cfg_before:
                v.append(("rejected_request_had_an_effect", (op[0], [x[:2] for x in d[:3]])))
        v += invariant(w2)
        if not v and op[0] in RT_AFTER and any(n.device_configurations for n in w2.all_nodes()):
            # an edit of an annotated model is followed by an implicit serialise/deserialise: the invariant must
            # hold for the model read back as well (references resolved by name in the right scope)
            try:
                w3 = W.__new__(W)
                w3.model = ir.from_proto(ir.to_proto(w2.model))
                w3.foreign, w3.spare = w2.foreign, w2.spare
                v += [("after_round_trip:" + c, d) for c, d in invariant(w3)]
            except Exception as e:  # noqa: BLE001
                v.append(("round_trip_of_annotated_model_raises", f"{type(e).__name__}: {e}"[:140]))
        out.append((op, res, canon(w2), v))
    return out


def _opclass(op):
    if op[0] == "shard":
        return f"shard[axis={op[4]},shards={op[5]},dev={len(op[6])},stage={op[7]}]"
    if op[0] in ("replace_input", "resize_inputs", "resize_outputs", "stage"):
        return f"{op[0]}[{op[2:]}]"
    return op[0]


def main(tier):
    r = common.Run("C19", "model_checking", tier)
    depth = 3
    seen = set()
    w0 = W()
    v0 = invariant(w0)
    if v0:
        raise common.HarnessError(f"seed violates the invariant: {v0}")
    seen.add(canon(w0))
    frontier = [()]
    transitions = raising = rejected_expected = 0
    found = {}
    samples = []
    for d in range(1, depth + 1):
        only_edits = tier == "quick" and d == 3
        order = common.shuffled(frontier, f"c19{d}")
        res = common.pmap(_expand, [(h, only_edits) for h in order], chunksize=max(1, len(frontier) // (common.NPROC * 8)))
        nxt = []
        for hist, recs in zip(order, res):
            for op, out, h, v in recs:
                transitions += 1
                raising += 1 if out[0] == "exc" else 0
                for clause, detail in v:
                    key = f"{clause}|{_opclass(op)}"
                    found.setdefault(key, {"history": list(hist) + [op], "clause": clause, "detail": detail})
                if h in seen:
                    continue
                seen.add(h)
                if not v:
                    nxt.append(tuple(hist) + (op,))
                    if len(samples) < 5 and r.rng.random() < 0.01:
                        samples.append({"history": list(hist) + [op], "outcome": out})
        common.eprint(f"  [C19] depth={d} states={len(seen)} transitions={transitions} frontier={len(nxt)}")
        frontier = nxt
        if d == 2 and tier == "quick":
            # third level of the quick tier: only below two annotating calls, and only edit/clone/round-trip calls
            frontier = [h for h in frontier if all(o[0] in ("shard", "stage") for o in h)]
    for key, f in sorted(found.items()):
        w, outs = build(f["history"])
        r.violation(key, f"{f['clause']}: {f['detail']}", {"engine": "E1", "history": f["history"], "oracle": f["clause"], "detail": f["detail"]})
    for s in samples or [{"history": [("shard", "m0", "x", "cfgA", 0, 2, (), None), ("rename", "x", "x_r")]}]:
        r.sample(s)
    r.coverage.update({
        "states": len(seen), "transitions": transitions, "traces_validated_against_impl": transitions,
        "raising_transitions": raising, "evaluations": transitions, "distinct_nontrivial": len(seen),
        "rule": "states = distinct canonical models reached; transitions = op applications; every state checked against the annotation invariant, the library's own checker and the serialised references",
        "exhaustive": True, "bound": {"depth": depth, "ops_per_state": len(enabled(W()))},
    })
    r.assumptions += ["shard / set_pipeline_stage are only given configurations currently registered on the model (a node cannot know its model)",
                      "remove_device_configuration is always called with cascade=True"]
    return r.finish()


def replay(obj):
    hist = [tuple(tuple(x) if isinstance(x, list) else x for x in op) for op in obj["history"]]
    recs = _expand((tuple(hist[:-1]), False))
    for op, out, h, v in recs:
        if op == hist[-1]:
            bad = [c for c in v if c[0] == obj["oracle"]]
            return (not bad), v[:4]
    return True, "op no longer enabled"
