"""C11 — graph iteration stays well defined while the graph is edited.

All event sequences (iterator steps interleaved with edits) up to a depth are executed on the
real Graph / DoublyLinkedSet / RecursiveGraphIterator; trace monitors taken literally from the
statement are evaluated on every sequence, and a plain Python list is the reference for the
sequence protocol (len / [i] / [-i] / in / list / reversed) after every event.
"""

from __future__ import annotations

import itertools

import onnx_ir as ir
from onnx_ir import traversal

from mc import common


class W:
    """A fresh world: main graph with k initial nodes (optionally an If-like node with a body), spares."""

    def __init__(self, k, with_body, iters):
        self.x = ir.Value(name="x")
        self.nodes = {}
        init = []
        for i in range(k):
            n = ir.Node("", "Op", [self.x], name=f"n{i}")
            self.nodes[f"n{i}"] = n
            init.append(n)
        self.body = None
        if with_body:
            p = ir.Node("", "Op", [self.x], name="p")
            q = ir.Node("", "Op", [p.outputs[0]], name="q")
            self.nodes["p"], self.nodes["q"] = p, q
            self.body = ir.Graph([], [q.outputs[0]], nodes=[p, q], name="body")
            # reference attributes (legal in function bodies) hold no graph: one of a scalar type and one of GRAPH
            # type, both listed BEFORE the attribute that does carry the body
            ifn = ir.Node("", "If", [self.x], [ir.RefAttr("count", "outer_count", ir.AttributeType.INT), ir.RefAttr("else_branch", "outer_else", ir.AttributeType.GRAPH),
                                               ir.AttrGraph("then_branch", self.body)], name="IF")
            self.nodes["IF"] = ifn
            init.insert(1 if k >= 1 else 0, ifn)
        # a dependency that makes sort() really reorder: n0 consumes the last initial plain node
        if k >= 3:
            self.nodes["n0"].replace_input_with(0, self.nodes[f"n{k - 1}"].outputs[0])
        for s in ("s0", "s1"):
            self.nodes[s] = ir.Node("", "Op", [self.x], name=s)
        self.g = ir.Graph([self.x], [], nodes=init, name="main")
        self.ref = {"main": [n.name for n in init], "body": ["p", "q"] if with_body else []}
        self.initial = {"main": list(self.ref["main"]), "body": list(self.ref["body"])}
        self.iters = []
        for kind in iters:
            if kind == "fwd":
                it = iter(self.g)
            elif kind == "rev":
                it = reversed(self.g)
            elif kind == "rec":
                it = iter(traversal.RecursiveGraphIterator(self.g))
            elif kind == "recrev":
                it = iter(traversal.RecursiveGraphIterator(self.g, reverse=True))
            elif kind == "body_fwd":
                it = iter(self.body)
            else:
                raise KeyError(kind)
            self.iters.append({"kind": kind, "it": it, "yields": [], "done": False, "started": False})

    def graph(self, gname):
        return self.g if gname == "main" else self.body


def _flat(w, reverse=False):
    """Reference order of the recursive traversal of the reference lists."""
    out = []
    main = w.ref["main"][::-1] if reverse else w.ref["main"]
    for n in main:
        out.append(n)
        if n == "IF":
            out.extend(w.ref["body"][::-1] if reverse else w.ref["body"])
    return out


class Violation(Exception):
    def __init__(self, clause, detail):
        super().__init__(clause)
        self.clause, self.detail = clause, detail


def _check_sequence(w):
    for gname in ("main", "body"):
        g = w.graph(gname)
        if g is None:
            continue
        ref = w.ref[gname]
        try:
            got = [n.name for n in g]
            if got != ref:
                raise Violation("sequence_differs_from_reference", (gname, got, ref))
            if len(g) != len(ref):
                raise Violation("len_wrong", (gname, len(g), len(ref)))
            rev = [n.name for n in reversed(g)]
            if rev != ref[::-1]:
                raise Violation("reversed_wrong", (gname, rev, ref[::-1]))
            # index access in three patterns, so that any position memo kept by the container between calls is
            # consulted from a different place than where it was left: last index first (right after the previous
            # event), then descending, then ascending; the final access of this check rotates over the positions
            cnt = w.check_count = getattr(w, "check_count", 0) + 1
            order = list(range(len(ref) - 1, -1, -1)) + list(range(len(ref)))
            if ref:
                order.append((cnt // 2) % len(ref) if cnt % 2 else min(1, len(ref) - 1))
            for i in order:
                if g[i].name != ref[i] or g[i - len(ref)].name != ref[i]:
                    raise Violation("index_wrong", (gname, i, g[i].name, g[i - len(ref)].name, ref[i]))
            for nm, n in w.nodes.items():
                if (n in g) != (nm in ref):
                    raise Violation("membership_wrong", (gname, nm))
                if (nm in ref) and n.graph is not g:
                    raise Violation("member_graph_pointer_wrong", (gname, nm))
        except Violation:
            raise
        except Exception as e:  # noqa: BLE001
            raise Violation("sequence_protocol_raises", (gname, type(e).__name__, str(e)[:80])) from None


def run_history(cfg, events, only_iter=None):
    """Execute one event sequence; raise Violation on the first violated monitor.
    Returns the per-iterator yields (used for the independence comparison)."""
    k, with_body, iters, warm = cfg
    w = W(k, with_body, iters)
    touched: dict[str, int] = {}  # node -> time of last touch
    must: list = []  # obligations: (iter index, node, kind 'yield'|'noyield', time)
    pending_resume: dict[int, tuple] = {}
    t = 0

    def position_of(iti):
        """Cursor node name of a plain iterator if its place is unambiguous, else None."""
        st = w.iters[iti]
        if not st["yields"]:
            return None
        c, tc = st["yields"][-1]
        if touched.get(c, -1) > tc:
            return None
        return c

    def do_next(iti, final=False):
        nonlocal t
        st = w.iters[iti]
        if st["done"]:
            return
        st["started"] = True
        try:
            n = next(st["it"])
        except StopIteration:
            st["done"] = True
            if iti in pending_resume:
                exp = pending_resume.pop(iti)
                if exp[0] is not None:
                    raise Violation("resume_after_removed_current_wrong", (st["kind"], "expected", exp[0], "got StopIteration"))
            return
        except Exception as e:  # noqa: BLE001
            if not final:
                # statement: no error *once edits stop*; mid-edit steps are judged at drain time only
                st["done"] = True
                st["error_mid"] = type(e).__name__
                raise Violation("iterator_raises", (st["kind"], type(e).__name__, str(e)[:80])) from None
            raise Violation("iterator_raises_after_edits_stopped", (st["kind"], type(e).__name__, str(e)[:80])) from None
        nm = n.name
        # (b) belongs to the graph it is iterated in at the moment it is yielded
        in_main = nm in w.ref["main"]
        in_body = nm in w.ref["body"]
        kind = st["kind"]
        ok = (in_main if kind in ("fwd", "rev") else in_body if kind == "body_fwd" else (in_main or in_body))
        if not ok:
            raise Violation("yielded_node_not_in_graph", (kind, nm, w.ref))
        if iti in pending_resume:
            exp = pending_resume.pop(iti)
            if exp[0] != nm:
                raise Violation("resume_after_removed_current_wrong", (kind, "expected", exp[0], "got", nm))
        st["yields"].append((nm, t))

    def apply_edit(ev):
        nonlocal t
        op, gname = ev[0], ev[1]
        g = w.graph(gname)
        ref = w.ref[gname]
        other = w.ref["body" if gname == "main" else "main"]
        plain = [i for i, st in enumerate(w.iters) if st["kind"] in (("fwd", "rev") if gname == "main" else ("body_fwd",))]
        before = list(ref)
        cursors = {i: position_of(i) for i in plain}

        def note_insert(xs, removed_first):
            # obligations for plain iterators over this graph
            for i in plain:
                st = w.iters[i]
                if st["done"]:
                    continue
                rev = st["kind"] == "rev"
                c = cursors[i]
                for x in xs:
                    if not st["started"]:
                        must.append((i, x, "yield", t))
                        continue
                    if c is None or c not in ref or c in xs:
                        continue  # ambiguous position
                    ic, ix = ref.index(c), ref.index(x)
                    after = ix < ic if rev else ix > ic
                    must.append((i, x, "yield" if after else "noyield", t))

        def note_leave(x):
            # the current node of an iterator is removed / moved: remember what followed it
            for i in plain:
                st = w.iters[i]
                if st["done"] or cursors[i] != x:
                    continue
                rev = st["kind"] == "rev"
                j = before.index(x)
                f = (before[j - 1] if j > 0 else None) if rev else (before[j + 1] if j + 1 < len(before) else None)
                pending_resume[i] = (f, t)

        try:
            if op == "append":
                x = ev[2]
                if x in other:
                    raise _Reject()
                if x in ref:
                    note_leave(x)
                    ref.remove(x)
                g.append(w.nodes[x])
                ref.append(x)
                touched[x] = t
                note_insert([x], True)
            elif op in ("insert_after", "insert_before"):
                a, x = ev[2], ev[3]
                if x in other or a not in ref:
                    raise _Reject()
                if x != a:
                    if x in ref:
                        note_leave(x)
                        ref.remove(x)
                    j = ref.index(a)
                    ref.insert(j + 1 if op == "insert_after" else j, x)
                elif op == "insert_before":
                    # inserting a node before itself re-links it at the same place: a move
                    note_leave(x)
                (g.insert_after if op == "insert_after" else g.insert_before)(w.nodes[a], w.nodes[x])
                if x != a:
                    touched[x] = t
                    note_insert([x], True)
                elif op == "insert_before":
                    touched[x] = t
            elif op == "remove":
                x = ev[2]
                if x not in ref:
                    raise _Reject()
                note_leave(x)
                ref.remove(x)
                g.remove(w.nodes[x])
                touched[x] = t
            elif op == "extend":
                xs = list(ev[2])
                if any(x in other for x in xs):
                    raise _Reject()
                for x in xs:
                    if x in ref:
                        ref.remove(x)
                    ref.append(x)
                g.extend([w.nodes[x] for x in xs])
                for x in xs:
                    touched[x] = t
                pending_resume.clear()  # several nodes move in one call: followers are ambiguous
                note_insert(list(dict.fromkeys(xs)), True)
            elif op == "sort":
                # reference: stable topological order of main and body; every node counts as moved
                g.sort()
                for gn in ("main", "body"):
                    gg = w.graph(gn)
                    if gg is not None and (gn == "main" or "IF" in w.ref["main"]):
                        w.ref[gn] = _ref_sort(w, gn)
                        for x in w.ref[gn]:
                            touched[x] = t
                pending_resume.clear()
                must[:] = [m for m in must if False]
            else:
                raise KeyError(op)
        except _Reject:
            return False
        except Violation:
            raise
        except Exception as e:  # noqa: BLE001
            raise Violation("valid_edit_raises", (ev, type(e).__name__, str(e)[:80])) from None
        # an edit other than the op that created it cancels a pending "resume" expectation
        for i in list(pending_resume):
            if pending_resume[i][1] != t:
                pending_resume.pop(i)
        return True

    # warm-up: advance iterator 0 (and 1) a few steps before the explored suffix
    seq = [("next", 0)] * warm + list(events)
    for ev in seq:
        t += 1
        if ev[0] == "next":
            if only_iter is not None and ev[1] != only_iter:
                continue
            if ev[1] < len(w.iters):
                do_next(ev[1])
        else:
            apply_edit(ev)
        _check_sequence(w)
    # edits have stopped: drain every iterator; must terminate without error
    bound = 6 * (len(w.nodes) + 2)
    for i, st in enumerate(w.iters):
        if only_iter is not None and i != only_iter:
            continue
        steps = 0
        while not st["done"]:
            t += 1
            do_next(i, final=True)
            steps += 1
            if steps > bound:
                raise Violation("iterator_does_not_terminate", (st["kind"], steps))
    # (c) never-touched initial nodes: exactly once, in graph order
    for i, st in enumerate(w.iters):
        if only_iter is not None and i != only_iter:
            continue
        kind = st["kind"]
        if kind in ("fwd", "rev"):
            base = w.initial["main"]
        elif kind == "body_fwd":
            base = w.initial["body"]
        else:
            base = None
        ys = [y for y, _ in st["yields"]]
        if base is not None:
            un = [n for n in base if n not in touched]
            exp = un[::-1] if kind == "rev" else un
            got = [y for y in ys if y in un]
            if got != exp:
                raise Violation("untouched_initial_nodes_not_exactly_once_in_order", (kind, got, exp))
        else:
            # recursive: untouched initial nodes of both graphs in depth-first order, provided the If node is untouched
            main0, body0 = w.initial["main"], w.initial["body"]
            order = []
            for n in (main0[::-1] if kind == "recrev" else main0):
                order.append(n)
                if n == "IF":
                    order.extend(body0[::-1] if kind == "recrev" else body0)
            un = [n for n in order if n not in touched]
            if "IF" in touched:
                un = [n for n in un if n not in body0]
            got = [y for y in ys if y in un]
            if got != un:
                raise Violation("untouched_initial_nodes_not_exactly_once_in_order", (kind, got, un))
        # (d) insertion obligations
        for (ii, x, what, tm) in must:
            if ii != i or touched.get(x, -1) > tm:
                continue
            later = [y for y, ty in st["yields"] if y == x and ty > tm]
            if what == "yield" and not later:
                raise Violation("node_inserted_after_position_not_yielded", (kind, x, tm))
            if what == "noyield" and later:
                raise Violation("node_inserted_before_position_yielded", (kind, x, tm))
    # (e) once edits have stopped: fresh recursive walks describe the current graph, and keep doing so when the body
    # is detached from / attached to its node (by every way the attribute container offers)
    if w.body is not None and only_iter is None:
        ifn = w.nodes["IF"]
        h = len(events)
        detach = ("del", "pop", "clear")[h % 3]
        saved = list(ifn.attributes.values())
        for phase in ("attached", "detached", "attached_again"):
            want_fwd = _flat(w) if phase != "detached" else list(w.ref["main"])
            want_rev = _flat(w, reverse=True) if phase != "detached" else list(w.ref["main"])[::-1]
            try:
                got_fwd = [n.name for n in w.g.all_nodes()]
                got_rev = [n.name for n in traversal.RecursiveGraphIterator(w.g, reverse=True)]
            except Exception as e:  # noqa: BLE001
                raise Violation("recursive_walk_raises_after_edits_stopped", (phase, detach, type(e).__name__, str(e)[:80])) from None
            if ifn.graph is w.g and (got_fwd != want_fwd or got_rev != want_rev):
                raise Violation("recursive_walk_differs_from_the_current_graph", (phase, detach, got_fwd, want_fwd))
            if phase == "attached":
                if detach == "del":
                    del ifn.attributes["then_branch"]
                elif detach == "pop":
                    ifn.attributes.pop("then_branch")
                else:
                    ifn.attributes.clear()
            elif phase == "detached":
                if detach == "clear":
                    for a in saved:
                        ifn.attributes.add(a)
                else:
                    ifn.attributes.add(ir.AttrGraph("then_branch", w.body))
    return [[y for y, _ in st["yields"]] for st in w.iters]


class _Reject(Exception):
    pass


def _ref_sort(w, gname):
    """Reference stable topological order (dependencies within the same graph, body uses count for IF)."""
    import networkx as nx

    g = w.graph(gname)
    names = w.ref[gname]
    pos = {n: i for i, n in enumerate(names)}
    dg = nx.DiGraph()
    dg.add_nodes_from(names)
    for n in names:
        node = w.nodes[n]
        users = [node]
        if n == "IF" and w.body is not None:
            users += list(w.body)
        for u in users:
            for v in u.inputs:
                if v is not None and v.producer() is not None and v.producer().graph is g and v.producer().name in pos and v.producer().name != n:
                    dg.add_edge(v.producer().name, n)
    # the library's result must be *a* linear extension that keeps already-valid orders; C12 checks the exact
    # stability rule, here we only need the resulting sequence: take it from the library and validate it
    got = [x.name for x in g]
    if sorted(got) != sorted(names):
        raise Violation("sort_changed_membership", (gname, got, names))
    p2 = {n: i for i, n in enumerate(got)}
    for a, b in dg.edges:
        if p2[a] > p2[b]:
            raise Violation("sort_result_not_topological", (gname, got, (a, b)))
    return got


def alphabet(cfg, tier):
    k, with_body, iters, warm = cfg
    main_nodes = [f"n{i}" for i in range(k)] + (["IF"] if with_body else [])
    spares = ["s0"] if tier == "quick" else ["s0", "s1"]
    allm = main_nodes + spares
    evs = [("next", i) for i in range(len(iters))]
    for x in allm:
        evs.append(("append", "main", x))
        evs.append(("remove", "main", x))
    for a in allm:
        for x in allm:
            if a != x or a == allm[0]:
                evs.append(("insert_after", "main", a, x))
                evs.append(("insert_before", "main", a, x))
    evs.append(("sort", "main"))
    evs.append(("extend", "main", (allm[0], spares[0])))
    if with_body:
        for x in ("p", "q", spares[0]):
            evs.append(("append", "body", x))
            evs.append(("remove", "body", x))
        evs += [("insert_after", "body", "p", spares[0]), ("insert_before", "body", "q", spares[0]),
                ("insert_after", "body", "q", "p"), ("insert_before", "body", "p", "q")]
    return evs


def configs(tier):
    cs = []
    for k in ((3,) if tier == "quick" else (2, 3, 4)):
        for iters in (("fwd",), ("rev",), ("fwd", "rev"), ("fwd", "fwd")):
            for warm in (0, 1, 2):
                if warm <= k:
                    cs.append((k, False, iters, warm))
    for iters in (("rec",), ("recrev",), ("rec", "body_fwd")):
        for warm in (0, 2, 3):
            cs.append((2, True, iters, warm))
    return cs


def _work(task):
    cfg, depth, first, tier = task
    evs = alphabet(cfg, tier)
    n = 0
    found = {}
    nontrivial = 0
    two = len(cfg[2]) == 2
    for rest in itertools.product(evs, repeat=depth - 1):
        seq = (first,) + rest
        n += 1
        has_next = any(e[0] == "next" for e in seq) or cfg[3] > 0
        has_edit = any(e[0] != "next" for e in seq)
        if has_next and has_edit:
            nontrivial += 1
        try:
            ys = run_history(cfg, seq)
            if two and has_edit:
                # iterator independence: each iterator alone yields the same trace
                for i in (0, 1):
                    alone = run_history(cfg, seq, only_iter=i)
                    if alone[i] != ys[i]:
                        raise Violation("iterators_not_independent", (cfg[2], i, ys[i], alone[i]))
        except Violation as v:
            key = f"{'+'.join(cfg[2])}|{v.clause}"
            if key not in found:
                found[key] = {"cfg": cfg, "events": seq, "clause": v.clause, "detail": v.detail}
    return n, nontrivial, found


def main(tier):
    r = common.Run("C11", "model_checking", tier)
    depth = 3 if tier == "quick" else 4

    def depth_of(cfg):
        # thorough: four events on the two-node sequences (alphabet 37/38), three on the larger ones (alphabet 55-78:
        # four events there would be 10^8 sequences per configuration)
        return depth if (tier == "quick" or (cfg[0] == 2 and not cfg[1])) else 3

    tasks = []
    for cfg in configs(tier):
        for d in range(1, depth_of(cfg) + 1):
            for first in alphabet(cfg, tier):
                tasks.append((cfg, d, first, tier))
    tasks = common.shuffled(tasks, "c11")
    res = common.pmap(_work, tasks, chunksize=max(1, len(tasks) // (common.NPROC * 16)))
    total = sum(a for a, _, _ in res)
    nontrivial = sum(b for _, b, _ in res)
    found = {}
    for _, _, f in res:
        for k, v in f.items():
            if k not in found or len(v["events"]) < len(found[k]["events"]):
                found[k] = v
    for key, f in sorted(found.items()):
        # replay twice
        outs = []
        for _ in range(2):
            try:
                run_history(tuple(f["cfg"]), f["events"])
                outs.append(None)
            except Violation as v:
                outs.append(v.clause)
        if f["clause"] != "iterators_not_independent" and (outs[0] != outs[1] or outs[0] is None):
            raise common.HarnessError(f"C11 violation did not replay: {key} {outs}")
        r.violation(key, f"{f['clause']}: {f['detail']}", {"engine": "E1", "config": f["cfg"], "events": f["events"], "oracle": f["clause"], "detail": f["detail"]})
    cfgs = configs(tier)
    r.sample({"config": cfgs[0], "events": [("next", 0), ("remove", "main", "n0"), ("next", 0)]})
    r.sample({"config": cfgs[-1], "events": [("append", "body", "s0"), ("next", 0), ("sort", "main")]})
    r.coverage.update({
        "states": total, "transitions": total * depth, "traces_validated_against_impl": total,
        "evaluations": total, "distinct_nontrivial": nontrivial,
        "rule": "a case is one event sequence (warm-up steps + all sequences over the alphabet up to the depth) followed by draining every iterator; non-trivial = contains at least one iterator step and one edit",
        "exhaustive": True,
        "bound": {"depth": depth, "depth_per_config": {str(c): depth_of(c) for c in cfgs}, "configs": len(cfgs), "alphabet_sizes": sorted({len(alphabet(c, tier)) for c in cfgs}),
                  "iterator_sets": sorted({"+".join(c[2]) for c in cfgs}), "warm_up_steps": [0, 1, 2, 3]},
    })
    r.assumptions += [
        "iterators are created before the first event; up to two simultaneous iterators",
        "position-dependent rules (inserted after/before the cursor, resume after removing the current node) are judged only where the statement is unambiguous: cursor node still at its place; no other edit between the removal and the next step",
        "sort() counts as moving every node",
    ]
    return r.finish()


def replay(obj):
    try:
        run_history(tuple(obj["config"][:2]) + (tuple(obj["config"][2]), obj["config"][3]),
                    [tuple(tuple(x) if isinstance(x, list) else x for x in e) for e in obj["events"]])
    except Violation as v:
        return False, {"clause": v.clause, "detail": v.detail}
    return True, "no monitor violated"
