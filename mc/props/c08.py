"""C08 — an interrupted external-data save never damages an existing data file.

For every history (model x pre-existing files x write options) the library-visible file-system
effects of the save are numbered by a dry run; then EVERY effect index is tried as (a) an injected
OSError per errno class, (b) process death immediately before the effect (forked child), (c) a torn
write (proper prefix written, then death).  Tensor- and callback-level exceptions (incl.
KeyboardInterrupt / SystemExit) are histories of their own.
"""

from __future__ import annotations

import os
import shutil
import stat

import numpy as np
import onnx_ir as ir
from onnx_ir import _core

from mc import common, fsfault

import logging

logging.getLogger("onnx_ir").setLevel(logging.ERROR)


def _arr(n, fill):
    return np.full((n,), fill, dtype=np.uint8)


def _model(tensors, sub=None):
    vals = []
    for i, t in enumerate(tensors):
        v = ir.Value(name=f"w{i}", const_value=t, shape=t.shape, type=ir.TensorType(t.dtype))
        t.name = f"w{i}"
        vals.append(v)
    x = ir.Value(name="x", shape=ir.Shape([1]), type=ir.TensorType(ir.DataType.UINT8))
    n = ir.Node("", "Identity", [x], name="n")
    n.outputs[0].name = "y"
    g = ir.Graph([x], [n.outputs[0]], nodes=[n], initializers=vals, name="g", opset_imports={"": 20})
    return ir.Model(g, ir_version=10)


def listing(d):
    out = {}
    for root, dirs, files in os.walk(d, followlinks=False):
        for nm in sorted(dirs + files):
            p = os.path.join(root, nm)
            rel = os.path.relpath(p, d)
            st = os.lstat(p)
            if stat.S_ISLNK(st.st_mode):
                out[rel] = ("link", os.readlink(p))
            elif stat.S_ISDIR(st.st_mode):
                out[rel] = ("dir",)
            else:
                out[rel] = ("file", stat.S_IMODE(st.st_mode), open(p, "rb").read())
    return out


class H:
    """A history: how to build the world in directory d and which save to run."""

    def __init__(self, name, build, natural_exc=None):
        self.name, self.build, self.natural_exc = name, build, natural_exc


class _Boom(BaseException):
    pass


def _raising_lazy(exc):
    def f():
        raise exc

    return ir.LazyTensor(f, dtype=ir.DataType.UINT8, shape=ir.Shape([9]), name="lazy")


def histories(tier):
    hs = []

    def fresh(d):
        return _model([ir.Tensor(_arr(4, 1)), ir.Tensor(_arr(300, 2)), ir.Tensor(_arr(7, 3))]), dict(external_data="w.data", size_threshold_bytes=0), {}

    hs.append(H("fresh_destination", fresh))

    def existing(d):
        with open(os.path.join(d, "w.data"), "wb") as f:
            f.write(b"OLD" * 50)
        os.chmod(os.path.join(d, "w.data"), 0o640)
        with open(os.path.join(d, "other.bin"), "wb") as f:
            f.write(b"neighbour")
        return fresh(d)

    hs.append(H("existing_destination", existing))

    def inplace(d, chunk=128):
        m = _model([ir.Tensor(_arr(4, 1)), ir.Tensor(_arr(300, 2)), ir.Tensor(_arr(7, 3))])
        ir.save(m, os.path.join(d, "m.onnx"), external_data="w.data", size_threshold_bytes=0)
        os.chmod(os.path.join(d, "w.data"), 0o600)
        m2 = ir.load(os.path.join(d, "m.onnx"))
        return m2, dict(external_data="w.data", size_threshold_bytes=0), {"chunk": chunk}

    hs.append(H("resave_in_place_multi_chunk", inplace))

    def inplace_threshold(d):
        m2, kw, info = inplace(d)
        kw = dict(kw, size_threshold_bytes=5)  # the 4-byte tensor is loaded to memory first, the others stream
        return m2, kw, info

    hs.append(H("resave_in_place_with_threshold", inplace_threshold))

    def symlink(d):
        os.makedirs(os.path.join(d, "real"))
        with open(os.path.join(d, "real", "w.bin"), "wb") as f:
            f.write(b"OLDTARGET" * 20)
        os.symlink(os.path.join("real", "w.bin"), os.path.join(d, "w.data"))
        return fresh(d)

    hs.append(H("destination_is_symlink", symlink))

    def mixed(d):
        with open(os.path.join(d, "src.bin"), "wb") as f:
            f.write(bytes(range(40)))
        ext = ir.ExternalTensor("src.bin", 5, 20, ir.DataType.UINT8, shape=ir.Shape([20]), name="e", base_dir=d)
        with open(os.path.join(d, "w.data"), "wb") as f:
            f.write(b"OLD" * 10)
        return _model([ir.Tensor(_arr(6, 1)), ext, ir.Tensor(_arr(9, 3))]), dict(external_data="w.data", size_threshold_bytes=0), {}

    hs.append(H("external_source_from_other_file", mixed))

    def existing_concurrent(d):
        m, kw, info = existing(d)
        return m, dict(kw, max_workers=2), info

    hs.append(H("existing_destination_two_workers", existing_concurrent))

    def inplace_concurrent(d):
        m, kw, info = inplace(d)
        return m, dict(kw, max_workers=2), info

    hs.append(H("resave_in_place_two_workers", inplace_concurrent))

    def sharded_concurrent(d):
        for nm, content in (("w.data", b"UNSHARDED-OLD"), ("other.bin", b"neighbour")):
            with open(os.path.join(d, nm), "wb") as f:
                f.write(content)
        m = _model([ir.Tensor(_arr(5, 1)), ir.Tensor(_arr(3, 2)), ir.Tensor(_arr(5, 3)), ir.Tensor(_arr(3, 4))])
        return m, dict(external_data="w.data", size_threshold_bytes=0, max_shard_size_bytes=8, max_workers=4), {"sharded": True}

    hs.append(H("sharded_four_workers", sharded_concurrent))

    def lazy_concurrent(d):
        m, kw, info = existing(d)
        vals = list(m.graph.initializers.values())
        vals[1].const_value = _raising_lazy(RuntimeError("boom"))
        vals[1].const_value.name = vals[1].name
        return m, dict(kw, max_workers=2), info

    hs.append(H("lazy_tensor_raises_two_workers", lazy_concurrent, natural_exc=RuntimeError))

    for exc_name, exc in (("RuntimeError", RuntimeError("boom")), ("KeyboardInterrupt", KeyboardInterrupt()), ("SystemExit", SystemExit(3)), ("BaseException", _Boom())):
        def lazy(d, exc=exc):
            m, kw, info = existing(d)
            vals = list(m.graph.initializers.values())
            vals[1].const_value = _raising_lazy(exc)
            vals[1].const_value.name = vals[1].name
            return m, kw, info

        hs.append(H(f"lazy_tensor_raises_{exc_name}", lazy, natural_exc=type(exc)))
        for at in (0, 2):
            def cb(d, exc=exc, at=at):
                m, kw, info = existing(d)

                def callback(tensor, cbinfo):
                    if cbinfo.index == at:
                        raise exc

                return m, dict(kw, callback=callback), info

            hs.append(H(f"callback_raises_{exc_name}_at_{at}", cb, natural_exc=type(exc)))

    def inplace_lazy(d):
        m2, kw, info = inplace(d)
        vals = list(m2.graph.initializers.values())
        vals[2].const_value = _raising_lazy(RuntimeError("boom"))
        vals[2].const_value.name = vals[2].name
        return m2, kw, info

    hs.append(H("resave_in_place_lazy_raises", inplace_lazy, natural_exc=RuntimeError))

    def sharded(d):
        for nm, content in (("w.data", b"UNSHARDED-OLD"), ("other.bin", b"neighbour"), ("w-00001-of-00003.data", b"foreign layout")):
            with open(os.path.join(d, nm), "wb") as f:
                f.write(content)
        m = _model([ir.Tensor(_arr(5, 1)), ir.Tensor(_arr(3, 2)), ir.Tensor(_arr(5, 3)), ir.Tensor(_arr(3, 4))])
        return m, dict(external_data="w.data", size_threshold_bytes=0, max_shard_size_bytes=8), {"sharded": True}

    hs.append(H("sharded_with_neighbours", sharded))

    def sharded_conflict(d):
        m, kw, info = sharded(d)
        with open(os.path.join(d, "w-00002-of-00002.data"), "wb") as f:
            f.write(b"EXISTING SHARD")
        return m, kw, dict(info, expect=FileExistsError)

    hs.append(H("sharded_conflict_on_second_shard", sharded_conflict, natural_exc=FileExistsError))

    def one_shard_conflict(d):
        with open(os.path.join(d, "w.data"), "wb") as f:
            f.write(b"PRE-EXISTING UNSHARDED NAME")
        m = _model([ir.Tensor(_arr(5, 1)), ir.Tensor(_arr(3, 2))])
        return m, dict(external_data="w.data", size_threshold_bytes=0, max_shard_size_bytes=1 << 20), {"sharded": True}

    hs.append(H("sharded_single_shard_name_collides", one_shard_conflict, natural_exc=FileExistsError))

    def one_shard_conflict_inplace(d):
        m2, kw, info = inplace(d)
        return m2, dict(kw, max_shard_size_bytes=1 << 20), dict(info, sharded=True)

    hs.append(H("sharded_single_shard_resave_in_place", one_shard_conflict_inplace, natural_exc=FileExistsError))

    # external tensors from two directories whose data files carry the same name; the save replaces one of them
    for first in ("a", "b"):
        def two_dirs(d, first=first):
            for sub, fill in (("a", 0x41), ("b", 0x42)):
                os.makedirs(os.path.join(d, sub))
                with open(os.path.join(d, sub, "weights.data"), "wb") as f:
                    f.write(bytes([fill]) * 64)
            order = ("a", "b") if first == "a" else ("b", "a")
            ts = [ir.ExternalTensor("weights.data", 8, 16, ir.DataType.UINT8, shape=ir.Shape([16]), name=f"e_{sub}", base_dir=os.path.join(d, sub)) for sub in order]
            return _model(ts + [ir.Tensor(_arr(6, 1))]), dict(external_data="weights.data", size_threshold_bytes=0), {"save_dir": "a"}

        hs.append(H(f"two_directories_same_file_name_{first}_first", two_dirs))

    # the external data path has a directory component
    def subdir_plain(d):
        os.makedirs(os.path.join(d, "weights"))
        with open(os.path.join(d, "weights", "model.data"), "wb") as f:
            f.write(b"OLD-IN-SUBDIR" * 5)
        with open(os.path.join(d, "weights", "neighbour.bin"), "wb") as f:
            f.write(b"neighbour")
        m, kw, info = fresh(d)
        return m, dict(kw, external_data=os.path.join("weights", "model.data")), info

    hs.append(H("destination_in_subdirectory", subdir_plain))

    def destination_is_a_directory(d):
        # the destination names an existing directory (with and without a trailing separator): the save must fail
        # and leave nothing behind
        os.makedirs(os.path.join(d, "weights"))
        with open(os.path.join(d, "weights", "neighbour.bin"), "wb") as f:
            f.write(b"neighbour")
        m, kw, info = fresh(d)
        return m, dict(kw, external_data="weights" + os.sep), dict(info, natural="raises")

    hs.append(H("destination_is_an_existing_directory_with_trailing_separator", destination_is_a_directory, natural_exc=Exception))

    def destination_is_a_directory2(d):
        m, kw, info = destination_is_a_directory(d)
        return m, dict(kw, external_data="weights"), info

    hs.append(H("destination_is_an_existing_directory", destination_is_a_directory2, natural_exc=Exception))

    def subdir_sharded(d):
        os.makedirs(os.path.join(d, "weights"))
        with open(os.path.join(d, "weights", "neighbour.bin"), "wb") as f:
            f.write(b"neighbour")
        m = _model([ir.Tensor(_arr(5, 1)), ir.Tensor(_arr(3, 2)), ir.Tensor(_arr(5, 3)), ir.Tensor(_arr(3, 4))])
        return m, dict(external_data=os.path.join("weights", "model.data"), size_threshold_bytes=0, max_shard_size_bytes=8), {"sharded": True}

    hs.append(H("sharded_in_subdirectory", subdir_sharded))

    def subdir_sharded_conflict(d):
        m, kw, info = subdir_sharded(d)
        with open(os.path.join(d, "weights", "model-00002-of-00002.data"), "wb") as f:
            f.write(b"EXISTING SHARD IN SUBDIR")
        return m, kw, info

    hs.append(H("sharded_in_subdirectory_conflict_on_second_shard", subdir_sharded_conflict, natural_exc=FileExistsError))

    def subdir_sharded_conflict_first(d):
        m, kw, info = subdir_sharded(d)
        with open(os.path.join(d, "weights", "model-00001-of-00002.data"), "wb") as f:
            f.write(b"EXISTING FIRST SHARD IN SUBDIR")
        return m, kw, info

    hs.append(H("sharded_in_subdirectory_conflict_on_first_shard", subdir_sharded_conflict_first, natural_exc=FileExistsError))

    # re-save of a model whose tensors live in another file of the same directory, onto a different existing file
    def other_file_to_existing(d):
        m2, kw, info = inplace(d)
        with open(os.path.join(d, "new.data"), "wb") as f:
            f.write(b"OLDNEW" * 9)
        return m2, dict(kw, external_data="new.data"), info

    hs.append(H("loaded_model_saved_to_other_existing_file", other_file_to_existing))
    # an external tensor whose location only *textually* normalises to the destination: "current/../w.data" with
    # current -> store/v1 really is store/w.data, a different file from the destination w.data
    def textual_alias(d):
        os.makedirs(os.path.join(d, "store", "v1"))
        os.symlink(os.path.join("store", "v1"), os.path.join(d, "current"))
        with open(os.path.join(d, "store", "w.data"), "wb") as f:
            f.write(bytes(range(64)))
        with open(os.path.join(d, "w.data"), "wb") as f:
            f.write(b"OLD-DESTINATION" * 4)
        ext = ir.ExternalTensor(os.path.join("current", "..", "w.data"), 8, 16, ir.DataType.UINT8, shape=ir.Shape([16]), name="e", base_dir=d)
        return _model([ext, ir.Tensor(_arr(6, 1))]), dict(external_data="w.data", size_threshold_bytes=0), {}

    hs.append(H("external_source_location_textually_aliases_destination", textual_alias))

    # the same worlds driven through the lower-level public entry points
    by_name = {h.name: h for h in hs}
    for base_name, entries in (
        ("existing_destination", ("unload", "convert")), ("resave_in_place_multi_chunk", ("unload", "convert")),
        ("resave_in_place_with_threshold", ("unload",)), ("external_source_from_other_file", ("unload", "convert")),
        ("destination_is_symlink", ("unload", "convert")), ("lazy_tensor_raises_RuntimeError", ("unload", "convert")),
        ("callback_raises_RuntimeError_at_2", ("unload", "convert")), ("existing_destination_two_workers", ("unload", "convert")),
        ("sharded_with_neighbours", ("unload",)), ("sharded_conflict_on_second_shard", ("unload",)), ("sharded_single_shard_resave_in_place", ("unload",)),
        ("destination_in_subdirectory", ("unload", "convert")),
    ):
        bh = by_name[base_name]
        for entry in entries:
            def via(d, bh=bh, entry=entry):
                m, kw, info = bh.build(d)
                return m, kw, dict(info, entry=entry)

            hs.append(H(f"{base_name}/via_{entry}", via, natural_exc=bh.natural_exc))
    return hs


def _ext_tensors(model):
    out = []
    for g in model.graphs():
        for v in g.initializers.values():
            if isinstance(v.const_value, ir.ExternalTensor):
                out.append(v.const_value)
    return out


def _call_entry(model, d, kw, info):
    """The public entry point a history drives: ir.save (default), external_data.unload_from_model, or
    external_data.convert_tensors_to_external on the model's initializer tensors."""
    from onnx_ir import external_data as ed

    entry = info.get("entry", "save")
    base = os.path.join(d, info.get("save_dir", ""))
    if entry == "save":
        return ir.save(model, os.path.join(base, "m.onnx"), **kw)
    kw = dict(kw)
    rel = kw.pop("external_data")
    if entry == "unload":
        return ed.unload_from_model(model, base, rel, **kw)
    if entry == "convert":
        kw.pop("size_threshold_bytes", None)
        tensors = [v.const_value for g in model.graphs() for v in g.initializers.values()]
        return ed.convert_tensors_to_external(tensors, base, rel, **kw)
    raise KeyError(entry)


def _do_save(h, d, plan):
    """Build the world and run the save under the given plan. Returns a dict describing what happened."""
    model, kw, info = h.build(d)
    exts = _ext_tensors(model)
    ext_before = []
    for t in exts:
        ext_before.append(bytes(t.tobytes()))
        t.release()
    before = listing(d)
    inodes = {rel: os.stat(os.path.join(d, rel)).st_ino for rel, e in before.items() if e[0] == "file"}
    consts = [(v, v.const_value) for g in model.graphs() for v in g.initializers.values()]
    fs = fsfault.FS(plan)
    saved_chunk = _core._EXTERNAL_TENSOR_COPY_CHUNK_SIZE
    if info.get("chunk"):
        _core._EXTERNAL_TENSOR_COPY_CHUNK_SIZE = info["chunk"]
    exc = None
    try:
        with fsfault.Patch(fs):
            if (kw.get("max_workers") or 1) > 1:
                # concurrent writer: run it under the cooperative scheduler's default schedule so that the
                # sequence of file-system effects is deterministic and can be numbered
                from mc import sched
                from onnx_ir import external_data as ed

                sc = sched.Scheduler([])
                th, cf = sched.make_shims(sc)
                saved = (ed.threading, ed.concurrent)
                ed.threading, ed.concurrent = th, cf
                try:
                    out = sc.run(lambda _s: _call_entry(model, d, kw, info))
                finally:
                    ed.threading, ed.concurrent = saved
                if sc.abort_reason is not None:
                    raise common.HarnessError(f"C08 concurrent history aborted: {sc.abort_reason}")
                if out[0] == "exc":
                    raise out[1]
            else:
                _call_entry(model, d, kw, info)
    except common.HarnessError:
        raise
    except BaseException as e:  # noqa: BLE001
        exc = e
    finally:
        _core._EXTERNAL_TENSOR_COPY_CHUNK_SIZE = saved_chunk
    return {"model": model, "exts": exts, "ext_before": ext_before, "before": before, "fs": fs, "exc": exc, "info": info, "consts": consts, "inodes": inodes}


def _dest_names(h_info, kw_external="w.data"):
    return {kw_external}


def check_after_exception(h, d, r, plan_desc):
    """Oracle for 'producing the new data file failed with an exception'."""
    v = []
    after = listing(d)
    before = r["before"]
    if after != before:
        diff = []
        for k in sorted(set(after) | set(before)):
            if after.get(k) != before.get(k):
                a, b = before.get(k), after.get(k)
                kind = "created" if a is None else "deleted" if b is None else "modified"
                diff.append((k, kind))
        leftovers = [k for k, kind in diff if kind == "created"]
        if r["info"].get("sharded"):
            # a sharded save may leave completed shard files of the new layout; only staging entries count
            leftovers = [k for k in leftovers if os.path.basename(k).startswith(".") or any(part.startswith(".") for part in k.split(os.sep))]
        damaged = [k for k, kind in diff if kind != "created"]
        if damaged:
            v.append(("existing_file_changed_after_failed_save", damaged))
        if leftovers:
            v.append(("temporary_file_or_directory_left_behind", leftovers))
    for t, old in zip(r["exts"], r["ext_before"]):
        if not t.valid():
            v.append(("external_tensor_invalidated_although_file_not_replaced", t.name))
            continue
        try:
            now = bytes(t.tobytes())
            t.release()
            if now != old:
                v.append(("external_tensor_content_changed_after_failed_save", t.name))
        except Exception as e:  # noqa: BLE001
            v.append(("external_tensor_unreadable_after_failed_save", f"{t.name}: {type(e).__name__}: {e}"[:100]))
    for val, c in r["consts"]:
        if r["info"].get("entry", "save") == "save" and val.const_value is not c:
            v.append(("model_holds_different_tensor_object_after_failed_save", val.name))
    return v


def check_after_crash(h, d, before, new_files, sharded):
    v = []
    after = listing(d)
    for k, old in before.items():
        now = after.get(k)
        if old[0] != "file":
            if now != old:
                v.append(("existing_entry_changed_after_crash", k))
            continue
        if now == old:
            continue
        complete = new_files.get(k)
        if (not sharded) and now is not None and now[0] == "file" and complete is not None and now[2] == complete[2]:
            continue  # exactly the complete new bytes
        if os.path.basename(k) == "m.onnx":
            continue  # the model file itself is not a data file
        v.append(("existing_data_file_is_neither_old_nor_complete_new_after_crash", (k, None if now is None else len(now[-1]) if now[0] == "file" else now[0])))
    return v


def run_history(h):
    """All fault / crash / torn plans of one history. Returns (n_runs, n_effects, violations)."""
    found = {}
    runs = 0

    def add(clause, detail, plan):
        key = f"{h.name}|{clause}"
        found.setdefault(key, {"history": h.name, "plan": plan, "clause": clause, "detail": detail})

    # dry run
    d = common.scratch_dir("c08")
    try:
        r = _do_save(h, d, None)
        log = list(r["fs"].log)
        new_files = listing(d)
        dry_exc = r["exc"]
        sharded = bool(r["info"].get("sharded"))
        runs += 1
        if h.natural_exc is not None:
            if dry_exc is None or not isinstance(dry_exc, h.natural_exc):
                add("expected_exception_not_raised", repr(dry_exc), None)
            else:
                for clause, detail in check_after_exception(h, d, r, "natural"):
                    add(clause, detail, {"mode": "natural", "exception": h.natural_exc.__name__})
        elif dry_exc is not None:
            raise common.HarnessError(f"dry run of {h.name} raised {dry_exc!r}")
        else:
            # success: tensors not backed by a replaced file stay valid
            replaced = {k for k, ino in r["inodes"].items() if not os.path.exists(os.path.join(d, k)) or os.stat(os.path.join(d, k)).st_ino != ino}
            for t in r["exts"]:
                rel = os.path.relpath(os.path.realpath(t.path), os.path.realpath(d))
                if rel not in replaced and not t.valid():
                    add("external_tensor_invalidated_although_file_not_replaced", t.name, {"mode": "success"})
            for val, c in r["consts"]:
                if r["info"].get("entry", "save") == "save" and val.const_value is not c:
                    add("model_holds_different_tensor_object_after_save", val.name, {"mode": "success"})
    finally:
        shutil.rmtree(d, ignore_errors=True)
    # fault plans
    for k, (kind, detail) in enumerate(log):
        for en in fsfault.FAULT_ERRNOS.get(kind, []):
            plan = {"k": k, "mode": "fault", "errno": en, "effect": f"{kind} {detail}"}
            d = common.scratch_dir("c08")
            try:
                r = _do_save(h, d, plan)
                runs += 1
                if not r["fs"].fired:
                    continue
                if r["exc"] is None:
                    add("injected_failure_swallowed", plan["effect"], plan)
                    continue
                for clause, det in check_after_exception(h, d, r, plan):
                    add(clause, det, plan)
            finally:
                shutil.rmtree(d, ignore_errors=True)
        # crash before the effect, and torn write
        for mode in (("crash", "torn") if kind == "write" else ("crash",)):
            plan = {"k": k, "mode": mode, "effect": f"{kind} {detail}"}
            d = common.scratch_dir("c08")
            try:
                # build the world once in the parent to know "before" (deterministic), then fork the save
                pid = os.fork()
                if pid == 0:
                    code = 0
                    try:
                        r = _do_save(h, d, plan)
                        code = 0 if r["exc"] is None else 3
                    except BaseException:  # noqa: BLE001
                        code = 4
                    os._exit(code)
                _, status = os.waitpid(pid, 0)
                runs += 1
                code = os.waitstatus_to_exitcode(status)
                if code not in (77, 78):
                    continue  # the plan did not fire in the child (natural exception earlier)
                # "before" = the world as built; rebuild it in a sibling directory for comparison
                d2 = common.scratch_dir("c08b")
                try:
                    h.build(d2)
                    before = listing(d2)
                finally:
                    shutil.rmtree(d2, ignore_errors=True)
                for clause, det in check_after_crash(h, d, before, new_files, sharded):
                    add(clause, det, plan)
            finally:
                shutil.rmtree(d, ignore_errors=True)
    return runs, len(log), found, [f"{a} {b}" for a, b in log]


# ---------------------------------------------------------------------------
# OS-level fault: a file-size limit (RLIMIT_FSIZE, SIGXFSZ ignored -> EFBIG / short writes) in a forked child.
# This reaches the write paths the proxy files cannot: ndarray.tofile through the descriptor and the kernel copy.

SL_KINDS = ("ndarray", "proto_raw", "external", "lazy", "mixed")
SL_N = 600
SL_FILLS = (0x41, 0x42, 0x43)


def _sl_tensors(kind, d):
    from onnx_ir import serde as _serde
    import onnx as _onnx

    arrs = [_arr(SL_N, f) for f in SL_FILLS]

    def proto(i, x):
        return _serde.TensorProtoTensor(_onnx.TensorProto(name=f"w{i}", data_type=_onnx.TensorProto.UINT8, dims=[SL_N], raw_data=x.tobytes()))

    if kind == "ndarray":
        return [ir.Tensor(x) for x in arrs]
    if kind == "proto_raw":
        return [proto(i, x) for i, x in enumerate(arrs)]
    if kind == "external":
        with open(os.path.join(d, "src.data"), "wb") as f:
            f.write(b"".join(x.tobytes() for x in arrs))
        return [ir.ExternalTensor("src.data", i * SL_N, SL_N, ir.DataType.UINT8, shape=ir.Shape([SL_N]), name=f"w{i}", base_dir=d) for i in range(len(arrs))]
    if kind == "lazy":
        return [ir.LazyTensor(lambda x=x: ir.Tensor(x), dtype=ir.DataType.UINT8, shape=ir.Shape([SL_N]), name=f"w{i}") for i, x in enumerate(arrs)]
    return [ir.Tensor(arrs[0]), proto(1, arrs[1]), ir.Tensor(arrs[2])]


def _sl_run(kind, entry, limit, workers=None, when=None, restore=False):
    """One execution. The file-size limit is in force from the start (when=None) or is switched on by the progress
    callback of tensor `when` (and off again by the next callback if `restore`). Returns (outcome, violations)."""
    import resource
    import signal

    d = common.scratch_dir("c08sl")
    old = b"OLD" * 700
    new = b"".join(_arr(SL_N, f).tobytes() for f in SL_FILLS)
    bad = []
    try:
        with open(os.path.join(d, "w.data"), "wb") as f:
            f.write(old)
        model = _model(_sl_tensors(kind, d))
        before = set(os.listdir(d))
        rfd, wfd = os.pipe()
        pid = os.fork()
        if pid == 0:
            code = b"?"
            try:
                os.close(rfd)
                signal.signal(signal.SIGXFSZ, signal.SIG_IGN)
                _, hard = resource.getrlimit(resource.RLIMIT_FSIZE)
                unlimited = resource.getrlimit(resource.RLIMIT_FSIZE)[0]
                kw = dict(external_data="w.data", size_threshold_bytes=0)
                if workers is not None:
                    kw["max_workers"] = workers
                if when is None:
                    resource.setrlimit(resource.RLIMIT_FSIZE, (limit, hard))
                else:
                    def cb(tensor, info):
                        if info.index == when:
                            resource.setrlimit(resource.RLIMIT_FSIZE, (limit, hard))
                        elif restore and info.index == when + 1:
                            resource.setrlimit(resource.RLIMIT_FSIZE, (unlimited, hard))

                    kw["callback"] = cb
                try:
                    _call_entry(model, d, kw, {"entry": entry})
                    code = b"ok"
                except BaseException as e:  # noqa: BLE001
                    code = f"raised:{type(e).__name__}:{getattr(e, 'errno', None)}".encode()
                os.write(wfd, code)
            finally:
                os._exit(0)
        os.close(wfd)
        outcome = b""
        while True:
            chunk = os.read(rfd, 4096)
            if not chunk:
                break
            outcome += chunk
        os.close(rfd)
        os.waitpid(pid, 0)
        outcome = outcome.decode() or "child_died"
        data = open(os.path.join(d, "w.data"), "rb").read()
        extra = sorted(set(os.listdir(d)) - before - {"m.onnx"})
        if outcome == "ok":
            if data != new:
                bad.append(("save_reported_success_but_data_file_is_not_the_new_bytes", f"len={len(data)} want {len(new)}; equals old={data == old}; zero bytes={data.count(0)}"))
        else:
            if data != old:
                bad.append(("failed_save_changed_the_existing_data_file", f"outcome={outcome} len={len(data)} new_prefix={data == new[:len(data)]} zero bytes={data.count(0)}"))
        if extra:
            bad.append(("temporary_files_left_behind", f"outcome={outcome} {extra}"))
    finally:
        shutil.rmtree(d, ignore_errors=True)
    return outcome, bad


def _sl_limits(tier):
    total = SL_N * len(SL_FILLS)
    base = {0, 1, SL_N - 1, SL_N, SL_N + 1, SL_N + SL_N // 2, 2 * SL_N, total - 1, total, total + 1, 4096}
    if tier == "thorough":
        base |= set(range(0, total + 100, 37))
    else:
        base |= {100, 2 * SL_N + 10}
    return sorted(base)


def _sl_plans(tier):
    """(limit, when, restore): limits in force from the start; limits switched on by the callback of tensor `when`,
    staying on or switched off again by the next callback (a transient refusal: the hole it leaves is inside the file)."""
    plans = [(lim, None, False) for lim in _sl_limits(tier)]
    for when in range(len(SL_FILLS)):
        for lim in ((0, 100, SL_N, SL_N + 10) if tier == "quick" else (0, 1, 100, SL_N - 1, SL_N, SL_N + 10, 2 * SL_N, 2 * SL_N + 10)):
            plans.append((lim, when, False))
            if when + 1 < len(SL_FILLS):
                plans.append((lim, when, True))
    return plans


def _sl_work(task):
    kind, entry, workers, tier = task
    found = {}
    outcomes = {}
    n = 0
    label = f"size_limit[{kind},{entry},workers={workers}]"
    for limit, when, restore in _sl_plans(tier):
        n += 1
        outcome, bad = _sl_run(kind, entry, limit, workers, when, restore)
        outcomes[outcome.split(":")[0]] = outcomes.get(outcome.split(":")[0], 0) + 1
        for clause, detail in bad:
            mode = "from_start" if when is None else ("transient" if restore else "from_callback")
            found.setdefault(f"{label}|{clause}|{mode}", {"history": label, "plan": {"rlimit_fsize": limit, "switched_on_by_callback_of_tensor": when, "switched_off_by_next_callback": restore}, "clause": clause, "detail": detail,
                                                          "kind": kind, "entry": entry, "limit": limit, "workers": workers, "when": when, "restore": restore})
    return label, n, n, found, outcomes


def _work(h_index_tier):
    idx, tier = h_index_tier
    h = histories(tier)[idx]
    runs, neff, found, log = run_history(h)
    return h.name, runs, neff, found, log


def main(tier):
    r = common.Run("C08", "fault_enumeration", tier)
    hs = histories(tier)
    res = common.pmap(_work, [(i, tier) for i in range(len(hs))], chunksize=1)
    total_runs = sum(x[1] for x in res)
    total_eff = sum(x[2] for x in res)
    found = {}
    for name, runs, neff, f, log in res:
        common.eprint(f"  [C08] {name}: effects={neff} runs={runs} violations={sorted(c.split('|')[1] for c in f)}")
        for k, v in f.items():
            found.setdefault(k, v)
    sl = common.pmap(_sl_work, [(k, e, w, tier) for k in SL_KINDS for e in ("save", "convert") for w in (None, 3)], chunksize=1)
    for name, runs, neff, f, outcomes in sl:
        common.eprint(f"  [C08] {name}: limits={runs} outcomes={outcomes} violations={sorted(c.split('|')[1] for c in f)}")
        total_runs += runs
        total_eff += neff
        for k, v in f.items():
            found.setdefault(k, v)
    for key, f in sorted(found.items()):
        r.violation(key, f"{f['clause']}: {f['detail']} (plan {f['plan']})", {"engine": "E5", "history": f["history"], "fault_plan": f["plan"], "oracle": f["clause"], "detail": f["detail"],
                                                                                **({"size_limit": [f["kind"], f["entry"], f["limit"], f["workers"], f["when"], f["restore"]]} if "limit" in f else {})})
    for name, runs, neff, f, log in res[:2]:
        r.sample({"history": name, "effects": log})
    r.coverage.update({
        "evaluations": total_runs, "distinct_nontrivial": total_eff,
        "rule": "a case is (history, effect index, mode) with mode in {OSError per errno class, crash before, torn write}, plus one natural run per history; distinct_nontrivial = distinct (history, effect index) crash points",
        "exhaustive": True, "histories": [x[0] for x in res], "effects_per_history": {x[0]: x[2] for x in res},
    })
    r.assumptions += ["POSIX rename atomicity and page-cache survival of process death (tmpfs) are assumed",
                      "effects are intercepted at the granularity of library-visible calls (mkdtemp, open, write, truncate, close, copymode, replace, remove, rmdir); the kernel-copy and ndarray.tofile fast paths are disabled by the proxy files (covered functionally by C04)",
                      "cleanup effects (remove/rmdir) are crash points only, never made to fail",
                      "concurrent-writer histories run under the cooperative scheduler's default schedule (one deterministic interleaving per history; all interleavings are C09's subject)"]
    return r.finish()


def replay(obj):
    if obj.get("size_limit"):
        outcome, bad = _sl_run(*obj["size_limit"])
        hit = [b for b in bad if b[0] == obj["oracle"]]
        return (not hit), [outcome] + hit
    hs = {h.name: h for h in histories("thorough")}
    h = hs[obj["history"]]
    runs, neff, found, log = run_history(h)
    bad = [k for k in found if k.endswith("|" + obj["oracle"])]
    return (not bad), {k: found[k]["detail"] for k in bad}
