"""C02 — ONNX proto -> IR -> proto is lossless for every supported proto.

Small-scope exhaustive enumeration: complete leaf families (TensorProto, TypeProto/ValueInfoProto,
AttributeProto) through the dedicated serde functions, and composite models = baseline + every
single (thorough: + every pair) of deviations from a feature catalogue through from_proto/to_proto.
Oracle: field-by-field equality up to the documented normalisations only (B5); second round trip
must be a fixpoint.
"""

from __future__ import annotations

import onnx
import onnx_ir as ir
from onnx_ir import serde

from mc import common
from mc import gen_protos as gp


def round_trip(p):
    if isinstance(p, onnx.TensorProto):
        return serde.serialize_tensor(serde.deserialize_tensor(p))
    if isinstance(p, onnx.ValueInfoProto):
        return serde.serialize_value(serde.deserialize_value_info_proto(p, None))
    if isinstance(p, onnx.AttributeProto):
        return ir.to_proto(serde.deserialize_attribute(p))
    if isinstance(p, onnx.ModelProto):
        return ir.to_proto(ir.from_proto(p))
    if isinstance(p, onnx.GraphProto):
        return serde.serialize_graph(serde.deserialize_graph(p))
    raise TypeError(type(p))


def check(p):
    """Returns (violations, textual_difference_but_equal_after_normalisation)."""
    out = []
    try:
        q = round_trip(p)
    except Exception as e:  # noqa: BLE001
        return [("round_trip_raises", f"{type(e).__name__}: {e}"[:200])], False
    a, b = gp.normalise(p), gp.normalise(q)
    d = gp.proto_diff(a, b)
    if d:
        out.append(("not_lossless", d[:6]))
    try:
        q2 = round_trip(q)
        d2 = gp.proto_diff(gp.normalise(q), gp.normalise(q2))
        if d2:
            out.append(("second_round_trip_not_a_fixpoint", d2[:6]))
    except Exception as e:  # noqa: BLE001
        out.append(("second_round_trip_raises", f"{type(e).__name__}: {e}"[:200]))
    textual = p.SerializeToString(deterministic=True) != q.SerializeToString(deterministic=True)
    return out, textual and not d


def _path_class(d):
    """Call-site class of a difference: the field path without indices."""
    import re

    if not d or isinstance(d, str):
        return ""
    return ",".join(sorted({re.sub(r"\[\d+\]", "[]", x[0]) + ":" + x[1] for x in d}))[:200]


def _work(task):
    family, tier, lo, hi = task
    items = list(_family(family, tier))[lo:hi]
    n = normalised = 0
    found = {}
    for label, p in items:
        n += 1
        v, norm = check(p)
        normalised += 1 if norm else 0
        for clause, detail in v:
            pc = _path_class(detail) if clause != 'round_trip_raises' else detail[:60]
            kfam = family
            if family == "tensor_in_model" and clause == "not_lossless":
                # the same leaf defect seen through a model: key it by the leaf (context prefix of the path dropped)
                import re

                stripped = ",".join(sorted({re.sub(r"^.*(\.initializer\[\]|\.tensors\[\]|\.t)(?=\.)", "", x) for x in pc.split(",")}))
                if stripped != pc:
                    kfam, pc = "tensor", stripped
            key = f"{kfam}|{clause}|{pc}"
            found.setdefault(key, {"family": family, "label": label, "clause": clause, "detail": detail,
                                   "proto_text": str(p)[:1500]})
    return family, n, normalised, found


def _family(family, tier):
    if family == "tensor":
        for i, t in enumerate(gp.gen_tensors(tier)):
            yield f"tensor#{i}:{onnx.TensorProto.DataType.Name(t.data_type)}", t
    elif family == "value_info":
        for i, v in enumerate(gp.gen_value_infos(tier)):
            yield f"value_info#{i}", v
    elif family == "attribute":
        for i, a in enumerate(gp.gen_attributes(tier)):
            yield f"attribute#{i}:{a.name}", a
    elif family == "model":
        yield from gp.gen_models(tier, pairs=False)
    elif family == "model_pairs":
        for label, m in gp.gen_models(tier, pairs=True):
            if "+" in label:
                yield label, m
    elif family == "model_triples":
        yield from gp.gen_triples()
    elif family == "tensor_in_model":
        yield from gp.gen_tensors_in_context(tier)
    elif family == "type_in_model":
        yield from gp.gen_types_in_context(tier)
    elif family == "attribute_in_model":
        yield from gp.gen_attributes_in_context(tier)
    elif family == "subgraph":
        yield "small_graph", gp.small_graph()
        for label, m in gp.gen_models(tier, pairs=False):
            yield "graph_of:" + label, m.graph


def main(tier):
    r = common.Run("C02", "exploration", tier)
    fams = ["tensor", "value_info", "attribute", "model", "subgraph", "model_pairs", "tensor_in_model", "type_in_model", "attribute_in_model"]
    if tier == "thorough":
        fams.append("model_triples")
    tasks = []
    sizes = {}
    for f in fams:
        n = sum(1 for _ in _family(f, tier))
        sizes[f] = n
        step = max(1, n // 24)
        for lo in range(0, n, step):
            tasks.append((f, tier, lo, min(n, lo + step)))
    res = common.pmap(_work, common.shuffled(tasks, "c02"), chunksize=1)
    per = {}
    found = {}
    for fam, n, normalised, f in res:
        p = per.setdefault(fam, [0, 0])
        p[0] += n
        p[1] += normalised
        for k, v in f.items():
            found.setdefault(k, v)
    for key, f in sorted(found.items()):
        r.violation(key, f"{f['clause']} [{f['label']}]: {f['detail']}", {"engine": "E6", "input": {"family": f["family"], "label": f["label"], "proto_text": f["proto_text"]},
                                                                         "oracle": f["clause"], "detail": f["detail"]})
    total = sum(p[0] for p in per.values())
    r.sample({"family": "model", "label": "if_with_captures@10", "deviation_catalogue": [n for n, _ in gp.DEVIATIONS]})
    r.sample({"family": "tensor", "example": str(gp.tensor(onnx.TensorProto.INT4, [3], "int32_data"))[:200]})
    r.coverage.update({
        "evaluations": total, "distinct_nontrivial": sum((v[0] if k in ("model", "model_pairs", "model_triples", "tensor_in_model", "type_in_model", "attribute_in_model") else v[1]) for k, v in per.items()),
        "rule": "a case is one generated proto; non-trivial = its round trip differs textually but is equal after the documented normalisations, or it is a composite model",
        "exhaustive": True, "families": {k: {"protos": v[0], "equal_only_after_normalisation": v[1]} for k, v in sorted(per.items())},
        "deviations": len(gp.DEVIATIONS),
    })
    r.assumptions += ["supported feature set only: no sparse attributes/initializers, map types, training_info, TensorProto.segment",
                      "normaliser implements exactly: ai.onnx->'' , sorted opset-import/value-info/metadata entries, value-info added/dropped for initializers and unreferenced names, trailing unnamed outputs trimmed, unset == default optional scalars"]
    return r.finish()


def replay(obj):
    inp = obj["input"]
    for label, p in _family(inp["family"], "thorough"):
        if label == inp["label"]:
            v, _ = check(p)
            bad = [x for x in v if x[0] == obj["oracle"]]
            return (not bad), v
    return True, "label not found in the current generator"
