"""C02 — ONNX proto -> IR -> proto is lossless for every supported proto.

Small-scope exhaustive enumeration: complete leaf families (TensorProto, TypeProto/ValueInfoProto,
AttributeProto) through the dedicated serde functions, and composite models = baseline + every
single (thorough: + every pair) of deviations from a feature catalogue through from_proto/to_proto.
Oracle: field-by-field equality up to the documented normalisations only (B5); second round trip
must be a fixpoint.
"""

from __future__ import annotations

import onnx
import onnx_ir as ir
from onnx_ir import serde

from mc import common
from mc import gen_protos as gp


def round_trip_via_file(p):
    """ModelProto -> file -> ir.load -> ir.save -> file -> ModelProto (no data file is needed: external tensors are
    only read on access)."""
    import os
    import shutil

    d = common.scratch_dir("c02file")
    try:
        src, dst = os.path.join(d, "in.onnx"), os.path.join(d, "out.onnx")
        with open(src, "wb") as f:
            f.write(p.SerializeToString())
        model = ir.load(src)
        ir.save(model, dst)
        q = onnx.ModelProto()
        with open(dst, "rb") as f:
            q.ParseFromString(f.read())
        return q
    finally:
        shutil.rmtree(d, ignore_errors=True)


def round_trip(p):
    if isinstance(p, onnx.TensorProto):
        return serde.serialize_tensor(serde.deserialize_tensor(p))
    if isinstance(p, onnx.ValueInfoProto):
        return serde.serialize_value(serde.deserialize_value_info_proto(p, None))
    if isinstance(p, onnx.AttributeProto):
        return ir.to_proto(serde.deserialize_attribute(p))
    if isinstance(p, onnx.ModelProto):
        return ir.to_proto(ir.from_proto(p))
    if isinstance(p, onnx.GraphProto):
        return serde.serialize_graph(serde.deserialize_graph(p))
    raise TypeError(type(p))


def check(p):
    """Returns (violations, textual_difference_but_equal_after_normalisation)."""
    out = []
    try:
        q = round_trip(p)
    except Exception as e:  # noqa: BLE001
        return [("round_trip_raises", f"{type(e).__name__}: {e}"[:200])], False
    a, b = gp.normalise(p), gp.normalise(q)
    d = gp.proto_diff(a, b)
    if d:
        out.append(("not_lossless", d[:6]))
    try:
        q2 = round_trip(q)
        d2 = gp.proto_diff(gp.normalise(q), gp.normalise(q2))
        if d2:
            out.append(("second_round_trip_not_a_fixpoint", d2[:6]))
    except Exception as e:  # noqa: BLE001
        out.append(("second_round_trip_raises", f"{type(e).__name__}: {e}"[:200]))
    if isinstance(p, onnx.ModelProto):
        # the same through the file entry points
        try:
            qf = round_trip_via_file(p)
            df = gp.proto_diff(a, gp.normalise(qf))
            if df and not d:
                out.append(("not_lossless_through_load_and_save", df[:6]))
        except Exception as e:  # noqa: BLE001
            if not any(c == "round_trip_raises" for c, _ in out):
                out.append(("load_or_save_raises", f"{type(e).__name__}: {e}"[:200]))
    textual = p.SerializeToString(deterministic=True) != q.SerializeToString(deterministic=True)
    return out, textual and not d


# ---------------------------------------------------------------------------
# proto -> IR -> (history of observations and of edits that are undone again) -> proto: the result must be the
# proto of the plain round trip. Anything an accessor caches, a container forgets to release, or a query rewrites
# shows as a difference although the IR "content" is the deserialised one.

def _all_graphs(model):
    out = [model.graph]
    for n in model.graph.all_nodes():
        for a in n.attributes.values():
            if a.is_ref():
                continue
            if a.type == ir.AttributeType.GRAPH:
                out.append(a.as_graph())
            elif a.type == ir.AttributeType.GRAPHS:
                out.extend(a.as_graphs())
    return out


def _all_values(model):
    vs = []
    for g in _all_graphs(model):
        vs.extend(g.inputs)
        vs.extend(g.initializers.values())
        for n in g:
            vs.extend(o for o in n.outputs)
    for f in model.functions.values():
        vs.extend(f.inputs)
        for n in f.all_nodes():
            vs.extend(n.outputs)
    return vs


def _intermediates(g):
    return [o for n in g for o in n.outputs if o.name and not o.is_graph_output()]


def n_display(m):
    str(m)
    repr(m)
    for v in _all_values(m):
        repr(v)
        str(v)


def n_shape_queries(m):
    for v in _all_values(m):
        sh = v.shape
        if sh is None:
            continue
        for meth, args in (("free_symbols", ()), ("is_static", ()), ("is_dynamic", ()), ("evaluate", ({"N": 4, "batch": 2},)), ("simplify", ()), ("numpy", ()), ("has_unknown_dim", ())):
            f = getattr(sh, meth, None)
            if f is None:
                continue
            try:
                f(*args)
            except Exception:  # noqa: BLE001  a query may refuse (numpy() on a symbolic shape): still an observation
                pass
        for d in sh:
            if isinstance(d, ir.SymbolicDim):
                for meth in ("free_symbols", "simplify"):
                    f = getattr(d, meth, None)
                    if f is not None:
                        try:
                            f()
                        except Exception:  # noqa: BLE001
                            pass
                try:
                    d + 1  # noqa: B018  arithmetic builds a new dimension; the operand stays as it is
                    d == d  # noqa: B015
                    hash(d)
                except Exception:  # noqa: BLE001
                    pass


def n_serialize(m):
    ir.to_proto(m)


def n_clone(m):
    try:
        m.clone()
    except Exception:  # noqa: BLE001  cloning may refuse a model (C13 judges that); it must still not change it
        pass


def n_walk(m):
    for n in m.graph.all_nodes():
        n.op_identifier()
        for v in n.inputs:
            if v is not None:
                v.uses()
                v.consumers()
                v.producer()
    for v in _all_values(m):
        v.is_graph_input(), v.is_graph_output(), v.is_initializer()


def n_checker(m):
    try:
        ir.passes.common.CheckerPass()(m)
    except Exception:  # noqa: BLE001  the baseline family contains models the checker rejects; it must still not change them
        pass


def _each_graph(fn):
    def run(m):
        for g in _all_graphs(m):
            fn(g)
    return run


def _out_append_del(g):
    for v in _intermediates(g)[:2]:
        g.outputs.append(v)
        del g.outputs[-1]


def _out_append_pop(g):
    for v in _intermediates(g)[:2]:
        g.outputs.append(v)
        g.outputs.pop()


def _out_insert_del0(g):
    for v in _intermediates(g)[:1]:
        g.outputs.insert(0, v)
        del g.outputs[0]


def _out_append_remove(g):
    for v in _intermediates(g)[:1]:
        g.outputs.append(v)
        g.outputs.remove(v)


def _out_slice_restore(g):
    old = list(g.outputs)
    it = _intermediates(g)[:1]
    g.outputs[:] = old + it
    g.outputs[:] = old


def _out_setitem_restore(g):
    if not g.outputs:
        return
    it = _intermediates(g)[:1]
    if not it:
        return
    old = g.outputs[-1]
    g.outputs[-1] = it[0]
    g.outputs[-1] = old


def _in_append_del(g):
    v = ir.Value(name="c02_tmp_input")
    g.inputs.append(v)
    del g.inputs[-1]


def _node_add_remove(g):
    if not len(g):
        return
    src = g[0].outputs[0]
    n = ir.Node("", "Identity", [src], name="c02_tmp_node")
    g.append(n)
    g.remove(n, safe=True)


def _input_swap_back(g):
    for n in g:
        if len(n.inputs) >= 1 and n.inputs[0] is not None and not n.device_configurations:  # a departing value takes its sharding spec along, by design
            old = n.inputs[0]
            other = next((v for v in g.inputs if v is not old), None)
            if other is None:
                return
            n.replace_input_with(0, other)
            n.replace_input_with(0, old)
            return


def _rename_back(g):
    for v in _intermediates(g)[:2]:
        old = v.name
        v.name = "c02_tmp_name"
        v.name = old


def _attr_add_del(g):
    for n in g:
        n.attributes["c02_tmp_attr"] = ir.AttrInt64("c02_tmp_attr", 1)
        del n.attributes["c02_tmp_attr"]
        return


def _meta_add_del(g):
    for v in _intermediates(g)[:1]:
        v.metadata_props["c02_tmp"] = "1"
        del v.metadata_props["c02_tmp"]
        v.meta["scratch"] = object()


NEUTRAL = [
    ("display", n_display), ("shape_queries", n_shape_queries), ("serialize", n_serialize), ("clone", n_clone), ("walk", n_walk), ("checker", n_checker),
    ("outputs_append_del", _each_graph(_out_append_del)), ("outputs_append_pop", _each_graph(_out_append_pop)), ("outputs_insert_del0", _each_graph(_out_insert_del0)),
    ("outputs_append_remove", _each_graph(_out_append_remove)), ("outputs_slice_restore", _each_graph(_out_slice_restore)), ("outputs_setitem_restore", _each_graph(_out_setitem_restore)),
    ("inputs_append_del", _each_graph(_in_append_del)), ("node_add_remove", _each_graph(_node_add_remove)), ("input_swap_back", _each_graph(_input_swap_back)),
    ("rename_back", _each_graph(_rename_back)), ("attr_add_del", _each_graph(_attr_add_del)), ("meta_add_del", _each_graph(_meta_add_del)),
]


def check_neutral(p, history):
    """history: tuple of NEUTRAL labels. Returns violations."""
    table = dict(NEUTRAL)
    try:
        want = gp.normalise(ir.to_proto(ir.from_proto(p)))
    except Exception:  # noqa: BLE001  judged by the plain family
        return []
    q = onnx.ModelProto()
    q.CopyFrom(p)
    try:
        m = ir.from_proto(q)
        for h in history:
            table[h](m)
    except Exception as e:  # noqa: BLE001
        return [("neutral_history_raises", f"{type(e).__name__}: {e}"[:200])]
    try:
        got = gp.normalise(ir.to_proto(m))
    except Exception as e:  # noqa: BLE001
        return [("serialization_raises_after_neutral_history", f"{type(e).__name__}: {e}"[:200])]
    d = gp.proto_diff(want, got)
    out = []
    if d:
        out.append(("neutral_history_changes_the_proto", d[:6]))
    return out


def _first_text_diff(a, b):
    la, lb = str(a).splitlines(), str(b).splitlines()
    for i, (x, y) in enumerate(zip(la, lb)):
        if x != y:
            return f"line {i}: {x.strip()!r} -> {y.strip()!r}"
    return f"length {len(la)} -> {len(lb)}"


def _neutral_work(task):
    tier, lo, hi = task
    import itertools
    import logging

    logging.disable(logging.CRITICAL)

    items = list(gp.gen_models(tier, pairs=False))[lo:hi]
    labels = [l for l, _ in NEUTRAL]
    hists = [(a,) for a in labels] + [(a, b) for a, b in itertools.product(labels, repeat=2)]
    found = {}
    n = 0
    for label, p in items:
        for h in hists:
            n += 1
            for clause, detail in check_neutral(p, h):
                pc = _path_class(detail) if clause == "neutral_history_changes_the_proto" else str(detail)[:60]
                key = f"neutral|{clause}|{h[-1]}|{pc}"
                if len(h) == 2 and any(k.startswith(f"neutral|{clause}|") and k.endswith(pc) and k.split("|")[2] in h for k in found):
                    continue  # already reported for a single step of this history
                found.setdefault(key, {"family": "model_neutral_history", "label": f"{label} history={list(h)}", "clause": clause, "detail": detail, "proto_text": str(p)[:1500],
                                       "history": list(h), "proto_hex": p.SerializeToString().hex()})
    return "model_neutral_history", n, n, found


def _path_class(d):
    """Call-site class of a difference: the field path without indices."""
    import re

    if not d or isinstance(d, str):
        return ""
    return ",".join(sorted({re.sub(r"\[\d+\]", "[]", x[0]) + ":" + x[1] for x in d}))[:200]


def _work(task):
    family, tier, lo, hi = task
    items = list(_family(family, tier))[lo:hi]
    n = normalised = 0
    found = {}
    for label, p in items:
        n += 1
        v, norm = check(p)
        normalised += 1 if norm else 0
        for clause, detail in v:
            pc = _path_class(detail) if clause != 'round_trip_raises' else detail[:60]
            kfam = family
            if family == "tensor_in_model" and clause == "not_lossless":
                # the same leaf defect seen through a model: key it by the leaf (context prefix of the path dropped)
                import re

                stripped = ",".join(sorted({re.sub(r"^.*(\.initializer\[\]|\.tensors\[\]|\.t)(?=\.)", "", x) for x in pc.split(",")}))
                if stripped != pc:
                    kfam, pc = "tensor", stripped
            key = f"{kfam}|{clause}|{pc}"
            found.setdefault(key, {"family": family, "label": label, "clause": clause, "detail": detail,
                                   "proto_text": str(p)[:1500]})
    return family, n, normalised, found


def _family(family, tier):
    if family == "tensor":
        for i, t in enumerate(gp.gen_tensors(tier)):
            yield f"tensor#{i}:{onnx.TensorProto.DataType.Name(t.data_type)}", t
    elif family == "value_info":
        for i, v in enumerate(gp.gen_value_infos(tier)):
            yield f"value_info#{i}", v
    elif family == "attribute":
        for i, a in enumerate(gp.gen_attributes(tier)):
            yield f"attribute#{i}:{a.name}", a
    elif family == "model":
        yield from gp.gen_models(tier, pairs=False)
    elif family == "model_pairs":
        for label, m in gp.gen_models(tier, pairs=True):
            if "+" in label:
                yield label, m
    elif family == "model_triples":
        yield from gp.gen_triples()
    elif family == "tensor_in_model":
        yield from gp.gen_tensors_in_context(tier)
    elif family == "type_in_model":
        yield from gp.gen_types_in_context(tier)
    elif family == "attribute_in_model":
        yield from gp.gen_attributes_in_context(tier)
    elif family == "subgraph":
        yield "small_graph", gp.small_graph()
        for label, m in gp.gen_models(tier, pairs=False):
            yield "graph_of:" + label, m.graph


def main(tier):
    r = common.Run("C02", "exploration", tier)
    fams = ["tensor", "value_info", "attribute", "model", "subgraph", "model_pairs", "tensor_in_model", "type_in_model", "attribute_in_model"]
    if tier == "thorough":
        fams.append("model_triples")
    tasks = []
    sizes = {}
    for f in fams:
        n = sum(1 for _ in _family(f, tier))
        sizes[f] = n
        step = max(1, n // 24)
        for lo in range(0, n, step):
            tasks.append((f, tier, lo, min(n, lo + step)))
    res = common.pmap(_work, common.shuffled(tasks, "c02"), chunksize=1)
    nm = sum(1 for _ in gp.gen_models(tier, pairs=False))
    res = list(res) + list(common.pmap(_neutral_work, [(tier, lo, lo + 1) for lo in range(nm)], chunksize=1))
    per = {}
    found = {}
    for fam, n, normalised, f in res:
        p = per.setdefault(fam, [0, 0])
        p[0] += n
        p[1] += normalised
        for k, v in f.items():
            found.setdefault(k, v)
    for key, f in sorted(found.items()):
        r.violation(key, f"{f['clause']} [{f['label']}]: {f['detail']}", {"engine": "E6", "input": {"family": f["family"], "label": f["label"], "proto_text": f["proto_text"]},
                                                                         "oracle": f["clause"], "detail": f["detail"], **({"history": f["history"], "proto_hex": f["proto_hex"]} if "history" in f else {})})
    total = sum(p[0] for p in per.values())
    r.sample({"family": "model", "label": "if_with_captures@10", "deviation_catalogue": [n for n, _ in gp.DEVIATIONS]})
    r.sample({"family": "tensor", "example": str(gp.tensor(onnx.TensorProto.INT4, [3], "int32_data"))[:200]})
    r.coverage.update({
        "evaluations": total, "distinct_nontrivial": sum((v[0] if k in ("model", "model_pairs", "model_triples", "tensor_in_model", "type_in_model", "attribute_in_model") else v[1]) for k, v in per.items()),
        "rule": "a case is one generated proto; non-trivial = its round trip differs textually but is equal after the documented normalisations, or it is a composite model",
        "exhaustive": True, "families": {k: {"protos": v[0], "equal_only_after_normalisation": v[1]} for k, v in sorted(per.items())},
        "deviations": len(gp.DEVIATIONS),
    })
    r.assumptions += ["supported feature set only: no sparse attributes/initializers, map types, training_info, TensorProto.segment",
                      "normaliser implements exactly: ai.onnx->'' , sorted opset-import/value-info/metadata entries, value-info added/dropped for initializers and unreferenced names, trailing unnamed outputs trimmed, unset == default optional scalars"]
    return r.finish()


def replay(obj):
    inp = obj["input"]
    if obj.get("history"):
        v = check_neutral(onnx.ModelProto.FromString(bytes.fromhex(obj["proto_hex"])), tuple(obj["history"]))
        return (not [x for x in v if x[0] == obj["oracle"]]), v[:3]
    for label, p in _family(inp["family"], "thorough"):
        if label == inp["label"]:
            v, _ = check(p)
            bad = [x for x in v if x[0] == obj["oracle"]]
            return (not bad), v
    return True, "label not found in the current generator"
