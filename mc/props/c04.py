"""C04 — all tensor representations agree on values and bytes for every dtype/shape.

Exhaustive configuration x value enumeration: every element type x shape x bit-pattern fill
(all patterns for <= 8-bit types, all 65536 for 16-bit types in thorough, boundary sets for wider
types) x every representation x every tofile destination, against an independent little-endian
packed reference and the ONNX numpy_helper codec.
"""

from __future__ import annotations

import io
import math
import os
import shutil

import ml_dtypes
import numpy as np
import onnx
import onnx.numpy_helper
import onnx_ir as ir
from onnx_ir import _core, serde

from mc import common

DT = ir.DataType
SUB = {DT.INT4: 4, DT.UINT4: 4, DT.FLOAT4E2M1: 4, DT.INT2: 2, DT.UINT2: 2}
SHAPES = [(), (0,), (1,), (3,), (5,), (7,), (2, 3), (1, 1, 1, 1, 3), (2, 0, 3)]

NP_NATIVE = {
    DT.FLOAT: np.float32, DT.UINT8: np.uint8, DT.INT8: np.int8, DT.UINT16: np.uint16, DT.INT16: np.int16,
    DT.INT32: np.int32, DT.INT64: np.int64, DT.BOOL: np.bool_, DT.FLOAT16: np.float16, DT.DOUBLE: np.float64,
    DT.UINT32: np.uint32, DT.UINT64: np.uint64, DT.COMPLEX64: np.complex64, DT.COMPLEX128: np.complex128,
}
ML = {
    DT.BFLOAT16: ml_dtypes.bfloat16, DT.FLOAT8E4M3FN: ml_dtypes.float8_e4m3fn, DT.FLOAT8E4M3FNUZ: ml_dtypes.float8_e4m3fnuz,
    DT.FLOAT8E5M2: ml_dtypes.float8_e5m2, DT.FLOAT8E5M2FNUZ: ml_dtypes.float8_e5m2fnuz, DT.FLOAT8E8M0: ml_dtypes.float8_e8m0fnu,
    DT.INT4: ml_dtypes.int4, DT.UINT4: ml_dtypes.uint4, DT.FLOAT4E2M1: ml_dtypes.float4_e2m1fn, DT.INT2: ml_dtypes.int2, DT.UINT2: ml_dtypes.uint2,
}
ALL_DTYPES = list(NP_NATIVE) + list(ML)
BITS = {DT.FLOAT: 32, DT.UINT8: 8, DT.INT8: 8, DT.UINT16: 16, DT.INT16: 16, DT.INT32: 32, DT.INT64: 64, DT.BOOL: 8, DT.FLOAT16: 16,
        DT.DOUBLE: 64, DT.UINT32: 32, DT.UINT64: 64, DT.COMPLEX64: 64, DT.COMPLEX128: 128, DT.BFLOAT16: 16, DT.FLOAT8E4M3FN: 8,
        DT.FLOAT8E4M3FNUZ: 8, DT.FLOAT8E5M2: 8, DT.FLOAT8E5M2FNUZ: 8, DT.FLOAT8E8M0: 8, DT.INT4: 4, DT.UINT4: 4, DT.FLOAT4E2M1: 4,
        DT.INT2: 2, DT.UINT2: 2}


def boundary_patterns(bits):
    """Bit patterns (as ints) for a word of `bits` bits: extremes, sign bit, NaN/Inf encodings, denormals."""
    full = (1 << bits) - 1
    ps = {0, 1, 2, full, full - 1, 1 << (bits - 1), (1 << (bits - 1)) - 1, (1 << (bits - 1)) + 1, 0x55555555_55555555 & full, 0xAAAAAAAA_AAAAAAAA & full}
    if bits == 32:
        ps |= {0x7F800000, 0xFF800000, 0x7FC00000, 0x7F800001, 0x00800000, 0x007FFFFF, 0x3F800000, 0xBF800000, 0x80000001}
    if bits == 64:
        ps |= {0x7FF0000000000000, 0xFFF0000000000000, 0x7FF8000000000000, 0x7FF0000000000001, 0x0010000000000000,
               0x000FFFFFFFFFFFFF, 0x3FF0000000000000, 0xBFF0000000000000}
    return sorted(ps)


def patterns_for(dtype, tier):
    b = BITS[dtype]
    if dtype == DT.BOOL:
        return [0, 1]
    if dtype in (DT.COMPLEX64, DT.COMPLEX128):
        half = b // 2
        hp = boundary_patterns(half)
        return [(hp[i] << half) | hp[(i * 7 + 3) % len(hp)] for i in range(len(hp))]
    if b <= 8:
        return list(range(1 << b))
    if b == 16:
        return list(range(1 << 16)) if tier == "thorough" else boundary_patterns(16) + list(range(0, 1 << 16, 257))
    return boundary_patterns(b)


def ref_bytes(dtype, pats):
    """Independent little-endian packed encoding of a flat pattern list."""
    b = BITS[dtype]
    if b >= 8:
        return b"".join(int(p).to_bytes(b // 8, "little") for p in pats)
    per = 8 // b
    out = bytearray(math.ceil(len(pats) / per))
    for i, p in enumerate(pats):
        out[i // per] |= (p & ((1 << b) - 1)) << ((i % per) * b)
    return bytes(out)


def ref_array(dtype, shape, pats):
    """The unpacked numpy array built directly from the patterns (one container element per logical element)."""
    b = BITS[dtype]
    if b >= 8:
        npdt = NP_NATIVE.get(dtype) or ML[dtype]
        return np.frombuffer(ref_bytes(dtype, pats), dtype=np.dtype(npdt).newbyteorder("<")).reshape(shape)
    # sub-byte: one byte per element, sign-extended for signed ints
    vals = []
    for p in pats:
        if dtype in (DT.INT4, DT.INT2) and p >= (1 << (b - 1)):
            p -= 1 << b
        vals.append(p)
    if dtype in (DT.INT4, DT.INT2):
        return np.array(vals, dtype=np.int8).reshape(shape).view(ML[dtype])
    return np.array(vals, dtype=np.uint8).reshape(shape).view(ML[dtype])


def bits_of(arr, dtype):
    """Element bit patterns of a numpy array as python ints (masked to the width for sub-byte containers)."""
    b = BITS[dtype]
    a = np.ascontiguousarray(arr)
    if b < 8:
        return [int(x) & ((1 << b) - 1) for x in a.reshape(-1).view(np.uint8)]
    raw = a.tobytes()
    n = b // 8
    return [int.from_bytes(raw[i:i + n], "little") for i in range(0, len(raw), n)]


class OnlyArray:
    def __init__(self, a):
        self._a = a
        self.shape = a.shape

    def __array__(self, dtype=None, copy=None):
        return self._a if dtype is None else self._a.astype(dtype)


class OnlyDLPack:
    def __init__(self, a):
        self._a = a
        self.shape = a.shape

    def __dlpack__(self, *, stream=None, **kw):
        return self._a.__dlpack__()

    def __dlpack_device__(self):
        return self._a.__dlpack_device__()


class WriteOnly:
    def __init__(self):
        self.buf = bytearray()

    def write(self, b):
        self.buf += bytes(b)
        return len(b)


def typed_field(dtype):
    if dtype in (DT.FLOAT, DT.COMPLEX64):
        return "float_data"
    if dtype in (DT.DOUBLE, DT.COMPLEX128):
        return "double_data"
    if dtype == DT.INT64:
        return "int64_data"
    if dtype in (DT.UINT32, DT.UINT64):
        return "uint64_data"
    return "int32_data"


def make_typed_proto(dtype, shape, pats):
    """TensorProto using the typed repeated field that the ONNX spec assigns to the dtype."""
    tp = onnx.TensorProto(name="t", data_type=int(dtype), dims=list(shape))
    f = typed_field(dtype)
    b = BITS[dtype]
    if f == "float_data":
        words = []
        for p in pats:
            words += [p] if b == 32 else [p & 0xFFFFFFFF, p >> 32]
        arr = np.array(words, dtype="<u4").view("<f4")
        if any(np.isnan(arr)):
            return None  # NaN payloads are not preserved by python float conversion
        tp.float_data.extend(arr.tolist())
    elif f == "double_data":
        words = []
        for p in pats:
            words += [p] if b == 64 else [p & 0xFFFFFFFFFFFFFFFF, p >> 64]
        arr = np.array(words, dtype="<u8").view("<f8")
        if any(np.isnan(arr)):
            return None
        tp.double_data.extend(arr.tolist())
    elif f == "int64_data":
        tp.int64_data.extend(np.array(pats, dtype="<u8").view("<i8").tolist())
    elif f == "uint64_data":
        tp.uint64_data.extend([int(p) for p in pats])
    else:
        if b == 32:
            tp.int32_data.extend(np.array(pats, dtype="<u4").view("<i4").tolist())
        elif b in (8, 16):
            if dtype in (DT.INT8, DT.INT16):
                tp.int32_data.extend([p - (1 << b) if p >= (1 << (b - 1)) else p for p in pats])
            else:
                tp.int32_data.extend([int(p) for p in pats])
        else:
            tp.int32_data.extend(list(ref_bytes(dtype, pats)))  # packed bytes, one per int32 entry
    return tp


def representations(dtype, shape, pats, root, tier):
    """Yield (label, tensor). Every representation carries the same logical data."""
    b = BITS[dtype]
    data = ref_bytes(dtype, pats)
    arr = ref_array(dtype, shape, pats)
    n = len(pats)
    yield "Tensor[ndarray]", ir.Tensor(arr.copy(), dtype=dtype, name="t")
    if dtype in NP_NATIVE:
        yield "Tensor[ndarray,dtype-inferred]", ir.Tensor(arr.copy(), name="t")
    if len(shape) == 2 and n > 0:
        tr = np.ascontiguousarray(arr.T).T  # same values, Fortran-ordered memory
        assert not tr.flags["C_CONTIGUOUS"] or min(shape) <= 1
        yield "Tensor[non-contiguous ndarray]", ir.Tensor(tr, dtype=dtype, name="t")
        big = np.concatenate([arr, arr], axis=1)[:, : shape[1]]  # a strided view into a larger buffer
        yield "Tensor[strided view]", ir.Tensor(big, dtype=dtype, name="t")
    if dtype in NP_NATIVE and arr.dtype.itemsize > 1:
        # the same values in an array of non-native byte order: either refused or encoded little-endian like any other
        try:
            swapped = arr.astype(arr.dtype.newbyteorder(">"))
            cands = []
            for mk_label, mk in (("Tensor[big-endian ndarray]", lambda: ir.Tensor(swapped, name="t")), ("Tensor[big-endian ndarray,dtype given]", lambda: ir.Tensor(swapped, dtype=dtype, name="t")),
                                 ("ir.tensor(big-endian ndarray)", lambda: ir.tensor(swapped, name="t"))):
                try:
                    cands.append((mk_label, mk()))
                except (TypeError, ValueError):
                    pass  # refusing such an array is consistent
            yield from cands
        except Exception:  # noqa: BLE001  numpy cannot express it
            pass
    if dtype in ML:
        # raw unsigned carrier, reinterpreted by the library
        if b == 16:
            carrier = np.frombuffer(data, dtype="<u2").reshape(shape).copy()
        elif b == 8:
            carrier = np.frombuffer(data, dtype=np.uint8).reshape(shape).copy()
        else:
            carrier = np.array([p for p in pats], dtype=np.uint8).reshape(shape)
            if dtype in (DT.INT4, DT.INT2):
                carrier = arr.view(np.int8).copy()
        yield "Tensor[raw carrier]", ir.Tensor(carrier, dtype=dtype, name="t")
    yield "Tensor[array-protocol only]", ir.Tensor(OnlyArray(arr.copy()), dtype=dtype, shape=ir.Shape(shape), name="t")
    if dtype in NP_NATIVE and dtype not in (DT.BOOL,) and n > 0:
        try:
            arr.copy().__dlpack__()
            yield "Tensor[dlpack only]", ir.Tensor(OnlyDLPack(arr.copy()), dtype=dtype, shape=ir.Shape(shape), name="t")
        except Exception:  # noqa: BLE001  numpy cannot export this dtype
            pass
    if b < 8:
        yield "PackedTensor", ir.PackedTensor(np.frombuffer(data, dtype=np.uint8).copy(), dtype, shape=ir.Shape(shape), name="t")
    tp = onnx.TensorProto(name="t", data_type=int(dtype), dims=list(shape), raw_data=data)
    yield "TensorProtoTensor[raw_data]", serde.TensorProtoTensor(tp)
    yield "deserialize_tensor[raw_data]", serde.deserialize_tensor(tp)
    tp2 = make_typed_proto(dtype, shape, pats)
    if tp2 is not None:
        yield f"TensorProtoTensor[{typed_field(dtype)}]", serde.TensorProtoTensor(tp2)
    # external, at several offsets; data followed by trailing bytes or exactly at end of file
    for off, tail, with_len in ((0, 0, True), (1, 5, True), (4097, 3, False), (3, 0, False), (0, 7, False), (2, 6, "longer"), (0, 9, "longer")):
        fn = os.path.join(root, f"ext_{off}_{tail}_{with_len}.bin")
        with open(fn, "wb") as f:
            f.write(b"\xEE" * off + data + b"\xDD" * tail)
        # "longer": the recorded length covers padding after the data (still inside the file): the tensor is the
        # first nbytes of the region
        length = len(data) if with_len is True else (len(data) + tail - 1 if with_len == "longer" else None)
        yield (f"ExternalTensor[offset={off},tail={tail},length={'set' if with_len is True else with_len or 'None'}]",
               ir.ExternalTensor(os.path.basename(fn), off, length, dtype, shape=ir.Shape(shape), name="t", base_dir=root))
    for cache in (False, True):
        yield f"LazyTensor[cache={cache}]", ir.LazyTensor(lambda: ir.Tensor(arr.copy(), dtype=dtype, name="t"), dtype=dtype, shape=ir.Shape(shape), cache=cache, name="t")
    yield "ir.tensor(ndarray)", ir.tensor(arr.copy(), dtype=dtype, name="t")
    if dtype in (DT.FLOAT, DT.INT64, DT.BOOL, DT.DOUBLE, DT.INT32) and n > 0:
        lst = arr.tolist()
        if not (dtype in (DT.FLOAT, DT.DOUBLE) and np.isnan(arr).any()):
            yield "ir.tensor(python list)", ir.tensor(lst, dtype=dtype, name="t")
    yield "serde round trip", serde.deserialize_tensor(serde.serialize_tensor(ir.Tensor(arr.copy(), dtype=dtype, name="t")))
    t = _torch_repr(dtype, shape, arr)
    if t is not None:
        yield from t


_TORCH = None


def _torch_repr(dtype, shape, arr):
    global _TORCH
    if _TORCH is None:
        try:
            import torch
            from onnx_ir import tensor_adapters

            _TORCH = (torch, tensor_adapters)
        except Exception:  # noqa: BLE001
            _TORCH = False
    if not _TORCH:
        return None
    torch, ta = _TORCH
    m = {DT.FLOAT: torch.float32, DT.DOUBLE: torch.float64, DT.FLOAT16: torch.float16, DT.BFLOAT16: torch.bfloat16, DT.INT8: torch.int8,
         DT.UINT8: torch.uint8, DT.INT16: torch.int16, DT.INT32: torch.int32, DT.INT64: torch.int64, DT.BOOL: torch.bool,
         DT.COMPLEX64: torch.complex64, DT.COMPLEX128: torch.complex128, DT.FLOAT8E4M3FN: torch.float8_e4m3fn,
         DT.FLOAT8E5M2: torch.float8_e5m2, DT.FLOAT8E4M3FNUZ: torch.float8_e4m3fnuz, DT.FLOAT8E5M2FNUZ: torch.float8_e5m2fnuz,
         DT.UINT16: torch.uint16, DT.UINT32: torch.uint32, DT.UINT64: torch.uint64}
    if dtype not in m or arr.size == 0:
        return None
    out = []
    try:
        flat = np.ascontiguousarray(arr).reshape(-1)
        carrier = {1: np.uint8, 2: np.int16, 4: np.int32, 8: np.int64, 16: None}[arr.dtype.itemsize]
        if dtype in (DT.COMPLEX64, DT.COMPLEX128, DT.BOOL):
            tt = torch.from_numpy(flat.copy())
        else:
            tt = torch.from_numpy(flat.view(carrier).copy()).view(m[dtype])
        out.append(("TorchTensor", ta.TorchTensor(tt.reshape(shape), name="t")))
        # a contiguous view into a larger storage (chunk of a fused weight)
        big = torch.cat([tt, tt, tt])
        view = big[tt.numel(): 2 * tt.numel()].reshape(shape)
        out.append(("TorchTensor[view into larger storage]", ta.TorchTensor(view, name="t")))
        # dense but not row-major: the logical tensor is the transpose / a permutation of what lies in storage
        if len(shape) >= 2 and min(shape) >= 1 and int(np.prod(shape)) > 1:
            perm = list(range(len(shape)))[::-1]
            inv = [perm.index(i) for i in range(len(shape))]
            stored = tt.reshape(shape).permute(perm).contiguous()  # storage holds the permuted layout
            logical = stored.permute(inv)  # same logical values as `tt.reshape(shape)`, strides not row-major
            if not logical.is_contiguous():
                out.append(("TorchTensor[dense, not row-major]", ta.TorchTensor(logical, name="t")))
        if len(shape) == 2 and shape[0] > 1 and shape[1] > 1:
            wide = torch.cat([tt.reshape(shape), tt.reshape(shape)], dim=1)
            out.append(("TorchTensor[strided column slice]", ta.TorchTensor(wide[:, : shape[1]], name="t")))
    except Exception:  # noqa: BLE001  torch build lacks the dtype
        return out or None
    return out


def check_case(dtype, shape, pats, root, tier):
    """Returns (n_repr_checks, violations)."""
    out = []
    data = ref_bytes(dtype, pats)
    n = len(pats)
    b = BITS[dtype]
    want_bits = [p & ((1 << b) - 1) for p in pats]
    nchecks = 0

    def bad(label, clause, detail):
        out.append((clause, label, f"{dtype.name} shape={list(shape)}: {detail}"))

    # the ONNX reference decoder on the reference bytes must agree with the reference array (cross-validates the oracle)
    onnx_ok = True
    try:
        tp = onnx.TensorProto(name="t", data_type=int(dtype), dims=list(shape), raw_data=data)
        oa = onnx.numpy_helper.to_array(tp)
        if bits_of(oa, dtype) != want_bits:
            onnx_ok = False
    except Exception:  # noqa: BLE001
        onnx_ok = False
    a = tb = None

    def _guarded():
        # building a representation from valid data must not raise: report it as a violation of the case (the
        # generator cannot be resumed, so the remaining representations of this case are skipped)
        it = representations(dtype, shape, pats, root, tier)
        last = "<first>"
        while True:
            try:
                label_, t_ = next(it)
            except StopIteration:
                return
            except Exception as e:  # noqa: BLE001
                bad(f"after {last}", "valid_representation_cannot_be_built", f"{type(e).__name__}: {e}"[:160])
                return
            last = label_
            yield label_, t_

    for label, t in _guarded():
        nchecks += 1
        try:
            if t.dtype != dtype:
                bad(label, "dtype_wrong", t.dtype)
            if tuple(t.shape.numpy()) != tuple(shape):
                bad(label, "shape_wrong", t.shape)
            if t.size != n:
                bad(label, "size_wrong", t.size)
            if t.nbytes != math.ceil(n * b / 8):
                bad(label, "nbytes_wrong", (t.nbytes, math.ceil(n * b / 8)))
            a = t.numpy()
            if tuple(a.shape) != tuple(shape):
                bad(label, "numpy_shape_wrong", a.shape)
            elif bits_of(a, dtype) != want_bits:
                bad(label, "numpy_values_wrong", (bits_of(a, dtype)[:8], want_bits[:8]))
            elif b < 8 and dtype in (DT.INT4, DT.INT2):
                sv = [int(x) for x in np.asarray(a).astype(np.int32).reshape(-1)]
                wv = [p - (1 << b) if p >= (1 << (b - 1)) else p for p in want_bits]
                if sv != wv:
                    bad(label, "numpy_signed_values_wrong", (sv[:8], wv[:8]))
            if a.dtype != np.dtype(dtype.numpy()):
                bad(label, "numpy_dtype_wrong", (a.dtype, dtype.numpy()))
            tb = t.tobytes()
            if bytes(tb) != data:
                bad(label, "tobytes_wrong", (len(tb), len(data), bytes(tb)[:8].hex(), data[:8].hex()))
            if np.asarray(t).shape != tuple(shape):
                bad(label, "array_protocol_shape_wrong", np.asarray(t).shape)
            # tofile destinations
            bio = io.BytesIO()
            t.tofile(bio)
            if bio.getvalue() != data:
                bad(label, "tofile_bytesio_wrong", (len(bio.getvalue()), len(data)))
            wo = WriteOnly()
            t.tofile(wo)
            if bytes(wo.buf) != data:
                bad(label, "tofile_writeonly_wrong", (len(wo.buf), len(data)))
            fn = os.path.join(root, "dest.bin")
            with open(fn, "wb") as f:
                f.write(b"abc")
                t.tofile(f)
                pos = f.tell()
                f.write(b"Z")
            got = open(fn, "rb").read()
            if got != b"abc" + data + b"Z" or pos != 3 + len(data):
                bad(label, "tofile_regular_file_at_position_wrong", (pos, got[:12].hex(), len(got), 4 + len(data)))
            with open(fn, "wb") as f:
                f.write(b"\x11" * (len(data) + 10))
            with open(fn, "r+b") as f:
                f.seek(5)
                t.tofile(f)
                pos = f.tell()
            got = open(fn, "rb").read()
            if got != b"\x11" * 5 + data + b"\x11" * 5 or pos != 5 + len(data):
                bad(label, "tofile_mid_file_overwrite_wrong", (pos, len(got)))
            with open(fn, "wb") as f:
                f.write(b"xy")
            with open(fn, "ab") as f:
                t.tofile(f)
            got = open(fn, "rb").read()
            if got != b"xy" + data:
                bad(label, "tofile_append_mode_wrong", (len(got), 2 + len(data)))
            # ONNX reference encoder on the values this representation reports
            if onnx_ok and n > 0:
                try:
                    enc = onnx.numpy_helper.from_array(np.array(a, order="C", copy=True), "t")
                    if enc.raw_data != data or enc.data_type != int(dtype) or list(enc.dims) != list(shape):
                        bad(label, "disagrees_with_onnx_encoder", (enc.raw_data[:8].hex(), data[:8].hex()))
                except Exception:  # noqa: BLE001  encoder does not support this container
                    pass
        except Exception as e:  # noqa: BLE001
            bad(label, "raises", f"{type(e).__name__}: {e}"[:160])
        a = tb = None
        if isinstance(t, ir.ExternalTensor):
            try:
                t.release()
            except BufferError:
                pass
    return nchecks, out, onnx_ok


def fills(dtype, shape, tier):
    """Pattern fills for one shape: rotate through every pattern at every phase so that every pattern
    lands at every position parity."""
    n = int(np.prod(shape)) if shape else 1
    pats = patterns_for(dtype, tier)
    if n == 0:
        return [[]]
    out = []
    if BITS[dtype] <= 8:
        nph = max(1, math.ceil(len(pats) / n)) + (8 // BITS[dtype] if BITS[dtype] < 8 else 0)
        for ph in range(nph):
            out.append([pats[(ph * n + i + (ph if BITS[dtype] < 8 else 0)) % len(pats)] for i in range(n)])
    else:
        for ph in range(max(1, math.ceil(len(pats) / n))):
            out.append([pats[(ph * n + i) % len(pats)] for i in range(n)])
        if tier == "quick":
            out = out[: max(3, len(out) // 8)] if BITS[dtype] == 16 else out
    return out


def _work(task):
    dtype, shape, tier = task
    root = common.scratch_dir("c04")
    found = {}
    nck = ncase = 0
    pats_seen = set()
    onnx_cross = 0
    try:
        for pats in fills(dtype, shape, tier):
            ncase += 1
            pats_seen.update(pats)
            n, v, ok = check_case(dtype, shape, pats, root, tier)
            onnx_cross += 1 if ok else 0
            nck += n
            for clause, label, detail in v:
                key = f"{clause}|{label}|{dtype.name}"
                found.setdefault(key, {"dtype": dtype.name, "shape": list(shape), "patterns": pats[:64], "clause": clause, "label": label, "detail": detail})
    finally:
        shutil.rmtree(root, ignore_errors=True)
    return ncase, nck, len(pats_seen), onnx_cross, found


# ---------------------------------------------------------------------------
# ExternalTensor.tofile on regular files: every answer sequence of os.copy_file_range within a deviation bound

KC_FALLBACK = ("EXDEV", "EINVAL", "ENOSYS", "EOPNOTSUPP", "EPERM", "EBADF")
KC_FATAL = ("ENOSPC", "EIO")
KC_ANSWERS = ["full", "short1", "half", "zero"] + [f"raise:{e}" for e in KC_FALLBACK + KC_FATAL]


def _kernel_copy_run(root, layout, answers):
    """One execution of tofile with the k-th copy_file_range call answered by answers[k] (default 'full').
    Returns (trace of answers consumed, violations)."""
    import errno as _errno

    off, n, tail, pre, dest_mode = layout
    data = bytes((i * 7 + 3) % 251 for i in range(n))
    src = os.path.join(root, "kc_src.bin")
    with open(src, "wb") as f:
        f.write(b"\xEE" * off + data + b"\xDD" * tail)
    t = ir.ExternalTensor("kc_src.bin", off, n, DT.UINT8, shape=ir.Shape([n]), name="t", base_dir=root)
    dst = os.path.join(root, "kc_dst.bin")
    if dest_mode == "wb":
        before = b"p" * pre
        with open(dst, "wb") as f:
            pass
    else:
        before = b"\x11" * (pre + n + 6)
        with open(dst, "wb") as f:
            f.write(before)
    used = []
    v = []
    fatal = None

    def fake(fd_in, fd_out, count, offset_src=None, offset_dst=None):
        nonlocal fatal
        k = len(used)
        ans = answers[k] if k < len(answers) else "full"
        used.append(ans)
        if count <= 0:
            v.append(("kernel_copy_requested_nothing", (k, count)))
        if offset_src is None or offset_dst is None:
            v.append(("kernel_copy_without_explicit_offsets", k))
            return 0
        if offset_src < off or offset_src + count > off + n:
            v.append(("kernel_copy_request_outside_the_tensor_range", (k, offset_src, count, off, n)))
        if ans.startswith("raise:"):
            name = ans.split(":")[1]
            if name in KC_FATAL:
                fatal = name
            raise OSError(getattr(_errno, name), f"injected {name}")
        if ans == "zero":
            return 0
        m = count if ans == "full" else 1 if ans == "short1" else max(1, count // 2)
        buf = os.pread(fd_in, m, offset_src)
        os.pwrite(fd_out, buf, offset_dst)
        return len(buf)

    saved = os.copy_file_range
    os.copy_file_range = fake
    exc = None
    pos = None
    try:
        with open(dst, "wb" if dest_mode == "wb" else "r+b") as f:
            if dest_mode == "wb":
                f.write(before)
            else:
                f.seek(pre)
            try:
                t.tofile(f)
            except OSError as e:
                exc = e
            pos = f.tell()
            if exc is None:
                f.write(b"Z")
    finally:
        os.copy_file_range = saved
    got = open(dst, "rb").read()
    if fatal is not None:
        if exc is None or exc.errno != getattr(_errno, fatal):
            v.append(("fatal_copy_error_not_propagated", (fatal, repr(exc))))
    elif exc is not None:
        v.append(("tofile_raises_although_fallback_possible", repr(exc)[:120]))
    else:
        want = (before + data + b"Z") if dest_mode == "wb" else (before[:pre] + data + b"Z" + before[pre + n + 1:])
        if got != want:
            v.append(("tofile_regular_file_content_wrong", (len(got), len(want), next((i for i, (a, b) in enumerate(zip(got, want)) if a != b), None))))
        if pos != pre + n:
            v.append(("tofile_leaves_wrong_file_position", (pos, pre + n)))
    if not used and n > 0:
        v.append(("HARNESS:kernel_copy_path_not_taken", None))
    try:
        t.release()
    except Exception:  # noqa: BLE001
        pass
    return used, v


def _kernel_copy_explore(task):
    layout, bound = task
    root = common.scratch_dir("c04kc")
    found = {}
    nexec = 0
    outcomes = set()
    try:
        stack = [[]]
        while stack:
            prefix = stack.pop()
            used, v = _kernel_copy_run(root, layout, prefix)
            nexec += 1
            if used[: len(prefix)] != prefix[: len(used)]:
                raise common.HarnessError(f"C04 kernel-copy replay diverged: {prefix} vs {used}")
            outcomes.add(tuple(used))
            for clause, detail in v:
                if clause.startswith("HARNESS:"):
                    raise common.HarnessError(f"C04: {clause} for {layout}")
                found.setdefault(f"{clause}|ExternalTensor.tofile[copy_file_range]", {"dtype": "UINT8", "shape": [layout[1]], "clause": clause, "label": f"layout={layout} answers={prefix}", "detail": detail})
            ndev = sum(1 for a in prefix if a != "full")
            if ndev >= bound:
                continue
            # a deviation at any call index at or after the end of the prefix that the execution reached
            for k in range(len(prefix), len(used)):
                for ans in KC_ANSWERS[1:]:
                    stack.append(prefix + ["full"] * (k - len(prefix)) + [ans])
    finally:
        shutil.rmtree(root, ignore_errors=True)
    return nexec, len(outcomes), found


def kernel_copy_checks(tier):
    layouts = [(off, n, tail, pre, mode) for (off, n, tail) in ((0, 40, 0), (5, 40, 7), (3, 1, 2)) for pre in (0, 3) for mode in ("wb", "r+b")]
    bound = 3 if tier == "quick" else 5
    res = common.pmap(_kernel_copy_explore, [(lay, bound) for lay in layouts], chunksize=1)
    found = {}
    for _, _, f in res:
        for k, v in f.items():
            found.setdefault(k, v)
    return sum(a for a, _, _ in res), sum(b for _, b, _ in res), found, {"layouts": len(layouts), "deviation_bound": bound, "answers": KC_ANSWERS}


# ---------------------------------------------------------------------------
# External tensors produced by the library itself, under histories of writes, reads and releases on ONE path

XH_OPS = ["W_A", "W_B", "W_C", "R0", "R1", "X0", "GC"]
XH_CONTENT = {
    # two tensors of equal byte size; A and B differ in content only, C in sizes too
    "A": ([1.0, 2.0, 3.0], [4.0, 5.0, 6.0]),
    "B": ([7.0, 8.0, 9.0], [10.0, 11.0, 12.0]),
    "C": ([13.0, 14.0], [15.0, 16.0, 17.0, 18.0, 19.0]),
}


def _xh_run(history, names, entry, dtype_name):
    """Execute one history on a fresh directory. Returns a list of (clause, detail)."""
    import gc

    from onnx_ir import external_data as xd

    dt = DT[dtype_name]
    root = common.scratch_dir("c04xh")
    bad = []
    latest = None  # [(tensor, expected_bytes, expected_values)]
    keep = []  # everything ever read stays referenced (an application holding on to its tensors)
    try:
        for k, op in enumerate(history):
            if op.startswith("W_"):
                vals = XH_CONTENT[op[2:]]
                tensors = []
                for i, v in enumerate(vals):
                    nm = "bias" if names == "same" else f"bias_{i}"
                    arr = np.array(v, dtype=np.float32)
                    tensors.append(ir.Tensor(arr.astype(dt.numpy()) if dt != DT.FLOAT else arr, dtype=dt, name=nm))
                want = [(t.tobytes(), t.numpy().copy()) for t in tensors]
                if entry == "convert":
                    ext = xd.convert_tensors_to_external(tensors, root, "d.bin")
                else:
                    # two sibling branches of an If, each owning one initializer (equal names are legal there)
                    vs = [ir.Value(name=t.name, const_value=t, type=ir.TensorType(dt), shape=ir.Shape(list(t.shape.numpy()))) for t in tensors]
                    c = ir.Value(name="c", type=ir.TensorType(DT.BOOL), shape=ir.Shape([]))
                    bodies = []
                    for j, v in enumerate(vs):
                        n = ir.node("Identity", [v], name=f"id_{j}")
                        n.outputs[0].name = f"o_{j}"
                        bodies.append(ir.Graph([], [n.outputs[0]], nodes=[n], initializers=[v], name=f"b{j}"))
                    ifn = ir.node("If", [c], attributes={"then_branch": bodies[0], "else_branch": bodies[1]}, name="if")
                    ifn.outputs[0].name = "r"
                    m = ir.Model(ir.Graph([c], [ifn.outputs[0]], nodes=[ifn], opset_imports={"": 21}, name="g"), ir_version=10)
                    mp = os.path.join(root, "m.onnx")
                    ir.save(m, mp, external_data="d.bin")
                    m2 = ir.load(mp)
                    node = m2.graph[0]
                    ext = [next(iter(node.attributes[b].as_graph().initializers.values())).const_value for b in ("then_branch", "else_branch")]
                latest = [(e, w[0], w[1]) for e, w in zip(ext, want)]
                for e, w in zip(ext, want):
                    if e.nbytes != len(w[0]) or e.dtype != dt:
                        bad.append(("external_tensor_reports_wrong_dtype_or_size", f"step {k} {op}: nbytes={e.nbytes} want {len(w[0])}"))
            elif op in ("R0", "R1"):
                if latest is None:
                    continue
                t, wb, wv = latest[int(op[1])]
                keep.append(t)
                try:
                    gb = t.tobytes()
                    gv = np.asarray(t.numpy())
                except Exception as e:  # noqa: BLE001
                    bad.append(("reading_a_written_external_tensor_raises", f"step {k} {op}: {type(e).__name__}: {e}"))
                    continue
                if gb != wb:
                    bad.append(("written_external_tensor_reads_other_bytes", f"step {k} {op}: got {gb.hex()} want {wb.hex()}"))
                elif not np.array_equal(gv.view(np.uint8) if gv.dtype.itemsize == 1 else gv, wv.view(np.uint8) if wv.dtype.itemsize == 1 else wv):
                    bad.append(("written_external_tensor_reads_other_values", f"step {k} {op}"))
                del gb, gv
            elif op == "X0":
                if latest is not None and hasattr(latest[0][0], "release"):
                    try:
                        latest[0][0].release()
                    except BufferError:
                        pass  # an exported view is still alive somewhere: the mapping simply stays open
            elif op == "GC":
                gc.collect()
    finally:
        for t in keep:
            try:
                t.release()
            except Exception:  # noqa: BLE001
                pass
        shutil.rmtree(root, ignore_errors=True)
    return bad


def _xh_work(task):
    names, entry, dtype_name, depth, first = task
    import itertools

    found = {}
    n = 0
    for rest in itertools.product(XH_OPS, repeat=depth - 1):
        h = (first,) + rest
        if not any(o.startswith("R") for o in h):
            continue
        n += 1
        for clause, detail in _xh_run(h, names, entry, dtype_name):
            found.setdefault(f"{clause}|{entry}|names_{names}", {"dtype": dtype_name, "clause": clause, "label": f"external_history[{entry},names={names}]", "detail": f"history={list(h)} {detail}",
                                                                 "history": list(h), "names": names, "entry": entry})
    return n, found


def external_history_checks(tier):
    depth = 4 if tier == "quick" else 5
    tasks = [(names, entry, dn, depth, first) for names in ("same", "distinct") for entry in ("convert", "save_load") for dn in ("FLOAT", "FLOAT16") for first in ("W_A", "W_C")]
    res = common.pmap(_xh_work, tasks, chunksize=1)
    found = {}
    for _, f in res:
        for k, v in f.items():
            found.setdefault(k, v)
    return sum(a for a, _ in res), found, {"alphabet": XH_OPS, "depth": depth, "configurations": len(tasks)}



def table_checks():
    out = []
    for d in DT:
        if d == DT.UNDEFINED:
            continue
        try:
            if d != DT.STRING:
                if d.bitwidth != BITS[d]:
                    out.append(("table_bitwidth_wrong", d.name, (d.bitwidth, BITS[d])))
                if abs(d.itemsize - BITS[d] / 8) > 1e-12:
                    out.append(("table_itemsize_wrong", d.name, d.itemsize))
                npd = d.numpy()
                if np.dtype(npd) != np.dtype(NP_NATIVE.get(d) or ML[d]):
                    out.append(("table_numpy_wrong", d.name, npd))
                if DT.from_numpy(np.dtype(npd)) != d:
                    out.append(("table_from_numpy_not_inverse", d.name, DT.from_numpy(np.dtype(npd))))
            if DT.from_short_name(d.short_name()) != d:
                out.append(("table_short_name_not_inverse", d.name, d.short_name()))
            if DT(int(d)) != d or int(d) != getattr(onnx.TensorProto, d.name):
                out.append(("table_enum_value_differs_from_onnx", d.name, int(d)))
        except Exception as e:  # noqa: BLE001
            out.append(("table_raises", d.name, f"{type(e).__name__}: {e}"))
    names = [d.short_name() for d in DT if d != DT.UNDEFINED]
    if len(set(names)) != len(names):
        out.append(("table_short_names_collide", "*", names))
    return out


def main(tier):
    r = common.Run("C04", "exploration", tier)
    _torch_repr(DT.FLOAT, (1,), np.zeros((1,), dtype=np.float32))  # import torch once before forking
    tasks = [(d, s, tier) for d in ALL_DTYPES for s in SHAPES]
    # one tensor holding every bit pattern of the type (8- and 16-bit types)
    tasks += [(d, (1 << BITS[d],), "thorough") for d in ALL_DTYPES if BITS[d] in (8, 16) and d != DT.BOOL]
    res = common.pmap(_work, common.shuffled(tasks, "c04"), chunksize=1)
    ncase = sum(a for a, *_ in res)
    nck = sum(b for _, b, *_ in res)
    onnx_cross = sum(x[3] for x in res)
    found = {}
    for *_, f in res:
        for k, v in f.items():
            found.setdefault(k, v)
    kc_exec, kc_out, kc_found, kc_info = kernel_copy_checks(tier)
    for k, v in kc_found.items():
        found.setdefault(k, v)
    nck += kc_exec
    xh_exec, xh_found, xh_info = external_history_checks(tier)
    for k, v in xh_found.items():
        found.setdefault(k, v)
    nck += xh_exec
    for clause, name, detail in table_checks():
        found.setdefault(f"{clause}|{name}", {"dtype": name, "clause": clause, "label": "table", "detail": str(detail)})
    # string tensors: values only (ONNX has no byte form for them)
    for shape in ((), (0,), (3,), (2, 2)):
        n = int(np.prod(shape)) if shape else 1
        vals = [[b"", b"a", b"\xff\x00b", "é".encode()][i % 4] for i in range(n)]
        tp = onnx.TensorProto(name="s", data_type=onnx.TensorProto.STRING, dims=list(shape))
        tp.string_data.extend(vals)
        for label, t in (("StringTensor", ir.StringTensor(vals, shape=ir.Shape(shape), name="s")), ("TensorProtoTensor[string_data]", serde.TensorProtoTensor(tp)),
                         ("deserialize_tensor[string_data]", serde.deserialize_tensor(tp))):
            nck += 1
            try:
                got = [bytes(x) for x in np.asarray(t.numpy()).reshape(-1).tolist()]
                sd = list(t.string_data()) if hasattr(t, "string_data") else None
                if t.dtype != DT.STRING or tuple(t.shape.numpy()) != tuple(shape) or (sd is not None and [bytes(x) for x in sd] != vals):
                    found.setdefault(f"string_tensor_wrong|{label}", {"dtype": "STRING", "shape": list(shape), "clause": "string_tensor_wrong", "label": label, "detail": (got, vals)})
            except Exception as e:  # noqa: BLE001
                found.setdefault(f"raises|{label}|STRING", {"dtype": "STRING", "shape": list(shape), "clause": "raises", "label": label, "detail": f"{type(e).__name__}: {e}"})
    for key, f in sorted(found.items()):
        r.violation(key, f"{f['clause']} [{f['label']}]: {f['detail']}", {"engine": "E6", "input": {k: f.get(k) for k in ("dtype", "shape", "patterns")}, "oracle": f["clause"], "label": f["label"], "detail": f["detail"], **({"history": f["history"], "names": f["names"], "entry": f["entry"]} if "history" in f else {})})
    r.sample({"dtype": "INT4", "shape": [5], "patterns": [0, 15, 8, 7, 1], "representations": "Tensor/PackedTensor/TensorProtoTensor(raw,int32)/ExternalTensor(5 offsets)/LazyTensor/ir.tensor/serde"})
    r.sample({"dtype": "BFLOAT16", "shape": [2, 3], "patterns": [0x7FC0, 0xFF80, 1, 0x8000, 0x3F80, 0xFFFF]})
    r.coverage.update({
        "evaluations": nck, "distinct_nontrivial": ncase,
        "rule": "a case is (dtype, shape, bit-pattern fill); every case is pushed through every representation and 6 tofile destinations; evaluations = (case, representation) pairs checked; distinct_nontrivial = distinct (dtype, shape, fill) cases",
        "external_write_read_histories": xh_exec, "external_histories": xh_info,
        "kernel_copy_executions": kc_exec, "kernel_copy_distinct_answer_sequences": kc_out, "kernel_copy": kc_info,
        "exhaustive": True, "dtypes": len(ALL_DTYPES) + 1, "shapes": [list(s) for s in SHAPES],
        "cases_where_onnx_reference_decoder_confirms_the_reference_bytes": onnx_cross,
        "bit_patterns": "all 2^k patterns for k<=8 at every position parity; 16-bit: " + ("all 65536" if tier == "thorough" else "boundary set + every 257th") + "; wider: boundary/non-finite set",
    })
    r.assumptions += ["kernel-copy exploration: os.copy_file_range is replaced by an emulation whose k-th answer is chosen from {full, 1 byte, half, 0, OSError per errno}; every answer sequence with at most the stated number of non-'full' answers is executed; ENOSPC/EIO must propagate, the other errnos and short/zero copies must fall back transparently",
                      "little-endian host", "float_data/double_data cases skip fills containing NaN (python float conversion does not keep NaN payloads)",
                      "onnx.numpy_helper is used as an independent codec where it supports the dtype/container"]
    return r.finish()


def replay(obj):
    inp = obj["input"]
    if obj.get("history"):
        bad = _xh_run(tuple(obj["history"]), obj["names"], obj["entry"], inp["dtype"])
        return (not [b for b in bad if b[0] == obj["oracle"]]), bad[:3]
    if not inp.get("patterns") and inp.get("shape") is None:
        return True, "table/string case: rerun the check"
    dtype = DT[inp["dtype"]]
    shape = tuple(inp["shape"])
    n = int(np.prod(shape)) if shape else 1
    pats = (inp.get("patterns") or [])[:n]
    if len(pats) < n:
        return True, "patterns truncated in replay file: rerun the check"
    root = common.scratch_dir("c04")
    try:
        _, v, _ = check_case(dtype, shape, pats, root, "quick")
    finally:
        shutil.rmtree(root, ignore_errors=True)
    bad = [x for x in v if x[0] == obj["oracle"] and x[1] == obj["label"]]
    return (not bad), v[:5]
