"""C16 — symbolic dimensions compute, print and re-parse with integer semantics.

Exhaustive enumeration of expression trees built through the operator overloads (and min/max
through the textual form), all bindings of a small positive domain, complete and partial;
reference = exact fractions.Fraction arithmetic (B3).  Parser: every token string up to a
length bound, reference = Python's own arithmetic grammar evaluated over Fractions.
"""

from __future__ import annotations

import ast
import itertools
import math
import signal
from fractions import Fraction

import onnx_ir as ir

from mc import common

BIN = ["+", "-", "*", "//", "/", "%", "min", "max"]
UN = ["neg", "floor", "ceil", "trunc"]


class Skip(Exception):
    pass


# ---------------------------------------------------------------------------
# reference semantics (B3)

def ref_eval(tree, env):
    k = tree[0]
    if k == "sym":
        return Fraction(env[tree[1]])
    if k == "int":
        return Fraction(tree[1])
    if k in UN:
        a = ref_eval(tree[1], env)
        if k == "neg":
            return -a
        if k == "floor":
            return Fraction(math.floor(a))
        if k == "ceil":
            return Fraction(math.ceil(a))
        return Fraction(math.trunc(a))
    a, b = ref_eval(tree[1], env), ref_eval(tree[2], env)
    if k == "+":
        return a + b
    if k == "-":
        return a - b
    if k == "*":
        return a * b
    if k in ("/", "//", "%") and b == 0:
        raise Skip("division by zero under this binding")
    if k == "/":
        return a / b
    if k == "//":
        return Fraction(math.floor(a / b))
    if k == "%":
        return a - b * math.floor(a / b)
    if k == "min":
        return min(a, b)
    if k == "max":
        return max(a, b)
    raise KeyError(k)


def is_sym(tree):
    if tree[0] == "sym":
        return True
    if tree[0] == "int":
        return False
    return any(is_sym(t) for t in tree[1:])


class NotConstructible(Exception):
    pass


r_keys_seen: set = set()


class BadOperatorResult(Exception):
    pass


_PYOPS = {"+": lambda a, b: a + b, "-": lambda a, b: a - b, "*": lambda a, b: a * b, "/": lambda a, b: a / b, "//": lambda a, b: a // b, "%": lambda a, b: a % b}


def build(tree):
    """Build the SymbolicDim (or int) through the public operator overloads."""
    k = tree[0]
    if k == "sym":
        return ir.SymbolicDim(tree[1])
    if k == "int":
        return tree[1]
    if k in UN:
        a = build(tree[1])
        if isinstance(a, int):
            raise NotConstructible()
        return {"neg": lambda x: -x, "floor": math.floor, "ceil": math.ceil, "trunc": math.trunc}[k](a)
    a, b = build(tree[1]), build(tree[2])
    if isinstance(a, int) and isinstance(b, int):
        raise NotConstructible()
    try:
        if k in _PYOPS:
            res = _PYOPS[k](a, b)
            if not isinstance(res, (int, ir.SymbolicDim)) or isinstance(res, bool):
                # an operator that answers with something that is not a dimension (None, NotImplemented, a float ...)
                raise BadOperatorResult(f"{a!r} {k} {b!r} -> {res!r}")
            return res
    except TypeError:
        # Python itself rejects the operand form (e.g. int // dim: no __rfloordiv__)
        raise NotConstructible() from None
    # min / max exist only in the textual form
    sa = str(a) if isinstance(a, int) else a.value
    sb = str(b) if isinstance(b, int) else b.value
    return ir.SymbolicDim(f"{k}({sa}, {sb})")


def sympy_of(tree, flavour):
    """The tree as a SymPy expression written by hand (no ir-py code involved), over symbols of a given assumption
    flavour - the documented constructor form SymbolicDim(<sympy.Expr>)."""
    import sympy

    k = tree[0]
    if k == "sym":
        kw = {"plain": {}, "integer": {"integer": True}, "integer_positive": {"integer": True, "positive": True}}[flavour]
        return sympy.Symbol(tree[1], **kw)
    if k == "int":
        return sympy.Integer(tree[1])
    if k in UN:
        a = sympy_of(tree[1], flavour)
        if k == "neg":
            return -a
        if k == "floor":
            return sympy.floor(a)
        if k == "ceil":
            return sympy.ceiling(a)
        return sympy.sign(a) * sympy.floor(sympy.Abs(a))
    a, b = sympy_of(tree[1], flavour), sympy_of(tree[2], flavour)
    if k == "+":
        return a + b
    if k == "-":
        return a - b
    if k == "*":
        return a * b
    if k == "/":
        return a / b
    if k == "//":
        return sympy.floor(a / b)
    if k == "%":
        return sympy.Mod(a, b)
    if k == "min":
        return sympy.Min(a, b)
    if k == "max":
        return sympy.Max(a, b)
    raise KeyError(k)


def to_fraction(res):
    """An evaluate() result (int or fully-bound SymbolicDim) as an exact Fraction."""
    if isinstance(res, int):
        return Fraction(res)
    if isinstance(res, ir.SymbolicDim):
        if res.free_symbols():
            raise ValueError(f"residual still has symbols: {res!r}")
        r2 = res.evaluate({})
        if isinstance(r2, int):
            return Fraction(r2)
        return Fraction(str(r2.value).replace(" ", ""))
    raise TypeError(type(res))


def _alarm(signum, frame):
    raise TimeoutError()


def check_tree(tree, syms, domain, do_simplify):
    """Returns (n_evals, n_skipped, violations)."""
    out = []
    try:
        d = build(tree)
    except NotConstructible:
        return 0, 0, out, "not_constructible"
    except BadOperatorResult as e:
        return 0, 0, [("operator_returns_something_that_is_not_a_dimension", str(e)[:120])], "error"
    except ZeroDivisionError as e:
        # e.g. N % (N - N): the divisor is identically zero, the expression has no value under any binding
        used = sorted({s for s in syms if _uses(tree, s)})
        for vals in itertools.product(domain, repeat=len(used)):
            try:
                ref_eval(tree, dict(zip(used, vals)))
            except Skip:
                continue
            return 0, 0, [("construction_raises", f"{type(e).__name__}: {e}"[:120])], "error"
        return 0, 0, out, "undefined_for_every_binding"
    except Exception as e:  # noqa: BLE001
        return 0, 0, [("construction_raises", f"{type(e).__name__}: {e}"[:120])], "error"
    if isinstance(d, int):
        return 0, 0, out, "int"
    text = d.value
    variants = [("direct", d)]
    try:
        variants.append(("reparsed", ir.SymbolicDim(text)))
        variants[-1][1].free_symbols()
    except Exception as e:  # noqa: BLE001
        out.append(("printed_form_does_not_parse", f"{text!r}: {type(e).__name__}: {e}"[:160]))
        variants = variants[:1]
    if do_simplify:
        try:
            signal.signal(signal.SIGALRM, _alarm)
            signal.alarm(20)
            variants.append(("simplified", d.simplify()))
        except TimeoutError:
            pass
        except Exception as e:  # noqa: BLE001
            out.append(("simplify_raises", f"{text!r}: {type(e).__name__}: {e}"[:160]))
        finally:
            signal.alarm(0)
    # the documented constructor form: a SymbolicDim made from a hand-written SymPy expression, over symbols with
    # and without assumptions (exact rational trees only: SymPy's own rewriting of rounding/modulo differs by flavour)
    if all(op not in tree_key(tree) for op in ("%", "trunc")):
        for flavour in ("plain", "integer", "integer_positive"):
            try:
                e = sympy_of(tree, flavour)
                if e.is_number:
                    continue
                variants.append((f"from_sympy[{flavour}]", ir.SymbolicDim(e)))
            except ZeroDivisionError:
                continue
            except Exception as e2:  # noqa: BLE001
                out.append((f"construction_from_sympy_raises[{flavour}]", f"{text!r}: {type(e2).__name__}: {e2}"[:160]))
    n = skipped = 0
    used = sorted({s for s in syms if _uses(tree, s)})
    for vals in itertools.product(domain, repeat=len(used)):
        env = dict(zip(used, vals))
        try:
            want = ref_eval(tree, env)
        except Skip:
            skipped += 1
            continue
        for label, v in variants:
            n += 1
            try:
                got = to_fraction(v.evaluate(env))
            except Exception as e:  # noqa: BLE001
                out.append((f"evaluate_raises[{label}]", f"{text!r} {env}: {type(e).__name__}: {e}"[:160]))
                continue
            if got != want:
                out.append((f"wrong_value[{label}]", f"{text!r} {env}: got {got} want {want}"))
            if want.denominator == 1 and label == "direct" and not isinstance(v.evaluate(env), int):
                out.append(("integer_result_not_int", f"{text!r} {env}"))
        # partial bindings: one symbol first, then the rest, both orders
        if len(used) == 2:
            for first in used:
                second = [u for u in used if u != first][0]
                try:
                    r1 = d.evaluate({first: env[first]})
                    r2 = r1 if isinstance(r1, int) else r1.evaluate({second: env[second]})
                    got = to_fraction(r2)
                    n += 1
                    if got != want:
                        out.append(("partial_then_complete_differs", f"{text!r} {env} first={first}: got {got} want {want}"))
                except Exception as e:  # noqa: BLE001
                    out.append(("partial_evaluate_raises", f"{text!r} {env} first={first}: {type(e).__name__}: {e}"[:160]))
        if len(out) > 6:
            break
    return n, skipped, out, "ok"


def _uses(tree, s):
    if tree[0] == "sym":
        return tree[1] == s
    if tree[0] == "int":
        return False
    return any(_uses(t, s) for t in tree[1:])


def gen_trees(leaves, depth, bin_ops, un_ops):
    level0 = list(leaves)
    levels = [level0]
    for _ in range(depth):
        prev = [t for lv in levels for t in lv]
        last = levels[-1]
        new = []
        for op in un_ops:
            for a in last:
                if is_sym(a):
                    new.append((op, a))
        for op in bin_ops:
            for a in prev:
                for b in prev:
                    if a not in last and b not in last:
                        continue  # at least one operand of the previous depth
                    if not (is_sym(a) or is_sym(b)):
                        continue
                    new.append((op, a, b))
        levels.append(new)
    return [t for lv in levels[1:] for t in lv]


def tree_key(tree):
    """Call-site class of a tree: operator skeleton without leaves."""
    if tree[0] in ("sym", "int"):
        return "i" if tree[0] == "int" else "s"
    return tree[0] + "(" + ",".join(tree_key(t) for t in tree[1:]) + ")"


def _work_trees(task):
    trees, syms, domain, do_simplify = task
    evals = skipped = 0
    status = {}
    found = {}
    for t in trees:
        n, s, v, st = check_tree(t, syms, domain, do_simplify)
        evals += n
        skipped += s
        status[st] = status.get(st, 0) + 1
        for clause, detail in v:
            key = f"expr|{clause}|{tree_key(t)}"
            found.setdefault(key, {"tree": t, "clause": clause, "detail": detail})
    return evals, skipped, status, found


# ---------------------------------------------------------------------------
# parser: all token strings up to a length, reference = Python arithmetic over Fractions

TOKENS = ["N", "2", "3", "+", "-", "*", "/", "//", "%", "**", "(", ")"]


def py_ref(text, n):
    """Standard arithmetic meaning of the string (Python grammar), exact, with a guard on powers."""
    try:
        node = ast.parse(text, mode="eval").body
    except SyntaxError:
        return None

    def ev(x):
        if isinstance(x, ast.BinOp):
            a, b = ev(x.left), ev(x.right)
            if isinstance(x.op, ast.Add):
                return a + b
            if isinstance(x.op, ast.Sub):
                return a - b
            if isinstance(x.op, ast.Mult):
                return a * b
            if isinstance(x.op, (ast.Div, ast.FloorDiv, ast.Mod)) and b == 0:
                raise Skip()
            if isinstance(x.op, ast.Div):
                return a / b
            if isinstance(x.op, ast.FloorDiv):
                return Fraction(math.floor(a / b))
            if isinstance(x.op, ast.Mod):
                return a - b * math.floor(a / b)
            if isinstance(x.op, ast.Pow):
                if b.denominator != 1 or abs(b) > 12 or abs(a) > 10**6 or (a == 0 and b < 0):
                    raise Skip()
                return a ** int(b)
            raise Skip()
        if isinstance(x, ast.UnaryOp) and isinstance(x.op, ast.USub):
            return -ev(x.operand)
        if isinstance(x, ast.UnaryOp) and isinstance(x.op, ast.UAdd):
            raise SyntaxError  # unary plus is not in the documented grammar
        if isinstance(x, ast.Constant) and isinstance(x.value, int):
            return Fraction(x.value)
        if isinstance(x, ast.Name):
            return Fraction(n)
        raise Skip()

    try:
        return ev(node)
    except SyntaxError:
        return None


def in_documented_grammar(tokens):
    """Membership in the documented grammar (expr/term/power/unary/primary), by recursive descent."""
    pos = 0

    def peek():
        return tokens[pos] if pos < len(tokens) else None

    def expr():
        nonlocal pos
        if not term():
            return False
        while peek() in ("+", "-"):
            pos += 1
            if not term():
                return False
        return True

    def term():
        nonlocal pos
        if not unary():
            return False
        while peek() in ("*", "/", "//", "%"):
            pos += 1
            if not unary():
                return False
        return True

    def unary():
        nonlocal pos
        if peek() == "-":
            pos += 1
            return unary()
        return power()

    def power():
        nonlocal pos
        if not primary():
            return False
        if peek() == "**":
            pos += 1
            return unary()
        return True

    def primary():
        nonlocal pos
        t = peek()
        if t in ("N", "2", "3"):
            pos += 1
            return True
        if t == "(":
            pos += 1
            if not expr():
                return False
            if peek() != ")":
                return False
            pos += 1
            return True
        return False

    ok = expr()
    return ok and pos == len(tokens)


def _work_parse(task):
    length, first_tokens = task
    n_strings = n_grammar = evals = 0
    found = {}
    for first in first_tokens:
        for rest in itertools.product(TOKENS, repeat=length - 1):
            toks = (first,) + rest
            n_strings += 1
            if not in_documented_grammar(toks):
                continue
            n_grammar += 1
            text = " ".join(toks) if length % 2 else "".join(toks)
            try:
                d = ir.SymbolicDim(text)
                d.free_symbols()
            except Exception as e:  # noqa: BLE001
                found.setdefault("parse|grammar_string_rejected", {"text": text, "clause": "grammar_string_rejected", "detail": f"{type(e).__name__}: {e}"[:120]})
                continue
            for n in (1, 2, 3, 5):
                try:
                    want = py_ref(text, n)
                except Skip:
                    continue
                if want is None:
                    continue
                evals += 1
                try:
                    got = to_fraction(d.evaluate({"N": n}))
                except Exception as e:  # noqa: BLE001
                    if "zoo" in str(e) or "nan" in str(e):
                        continue
                    found.setdefault(f"parse|evaluate_raises|{_shape(toks)}", {"text": text, "clause": "evaluate_raises", "detail": f"N={n}: {type(e).__name__}: {e}"[:120]})
                    continue
                if got != want:
                    found.setdefault(f"parse|wrong_meaning|{_shape(toks)}", {"text": text, "clause": "wrong_meaning", "detail": f"N={n}: got {got}, standard arithmetic gives {want}"})
    return n_strings, n_grammar, evals, found


def _shape(toks):
    return " ".join("a" if t in ("N", "2", "3") else t for t in toks)


FUNC_STRINGS = ["max(N, 2)", "min(N, 3)", "max(N, 2) + 1", "min(N, 3) * 2", "floor(N / 2)", "floor(N / 2) * 2", "mod(N, 3)", "Mod(N, 2) + 1",
                "max(N // 2, 1)", "min(N % 3, 1)", "-max(N, 2)", "max(-N, -3)", "Max(N, 3) - Min(N, 3)", "floor(-N / 2)", "2 ** min(N, 3)"]


def func_ref(text, n):
    env = {"N": Fraction(n), "max": max, "min": min, "Max": max, "Min": min, "floor": lambda x: Fraction(math.floor(x)),
           "mod": lambda a, b: a - b * math.floor(a / b), "Mod": lambda a, b: a - b * math.floor(a / b)}
    tree = ast.parse(text, mode="eval")

    class Fr(ast.NodeTransformer):
        def visit_Constant(self, node):
            return ast.copy_location(ast.Call(ast.Name("Fraction", ast.Load()), [node], []), node)

        def visit_BinOp(self, node):
            self.generic_visit(node)
            if isinstance(node.op, ast.FloorDiv):
                return ast.copy_location(ast.Call(ast.Name("fdiv", ast.Load()), [node.left, node.right], []), node)
            return node

    tree = ast.fix_missing_locations(Fr().visit(tree))
    env["Fraction"] = Fraction
    env["fdiv"] = lambda a, b: Fraction(math.floor(a / b))
    return Fraction(eval(compile(tree, "<ref>", "eval"), {"__builtins__": {}}, env))  # noqa: S307 - fixed literal strings


# ---------------------------------------------------------------------------
# Shapes as containers of dimensions: histories of queries and axis assignments on ONE Shape object

SH_DIMS = [("int", 6), ("sym", "N"), ("*", ("int", 2), ("sym", "N")), ("+", ("sym", "M"), ("int", 1)), ("//", ("sym", "K"), ("int", 2))]
SH_ENV = {"N": 3, "M": 5, "K": 9}


def _sh_ops(rank):
    ops = [("free_symbols",), ("evaluate", ("N",)), ("evaluate", ("M", "K")), ("evaluate", ())]
    for i in range(rank):
        for d in range(len(SH_DIMS)):
            ops.append(("set", i, d))
    return ops


def _sh_run(initial, history, frozen=False):
    dims = [SH_DIMS[i] for i in initial]
    shape = ir.Shape([build(t) for t in dims], frozen=frozen)
    bad = []
    shared = {}  # ONE bindings mapping that the caller keeps updating between evaluations
    for step, op in enumerate(history):
        if op[0] == "free_symbols":
            shape.free_symbols()
        elif op[0] == "evaluate":
            shape.evaluate({k: SH_ENV[k] for k in op[1]})
        elif op[0] == "evaluate_shared":
            shared.clear()
            shared.update({k: SH_ENV[k] for k in op[1]})
            shape.evaluate(shared)
            shared.update(SH_ENV)  # ... and completes it afterwards
        else:
            shape[op[1]] = build(SH_DIMS[op[2]])
            dims[op[1]] = SH_DIMS[op[2]]
        # after every step the shape must describe its current dimensions
        want_syms = set()
        for t in dims:
            want_syms |= {s for s in SH_ENV if _uses(t, s)}
        want_vals = [int(ref_eval(t, SH_ENV)) for t in dims]
        try:
            got_syms = set(shape.free_symbols())
            full = shape.evaluate(dict(SH_ENV))
            got_vals = [d if isinstance(d, int) else d.value for d in full]
            two = shape.evaluate({"N": SH_ENV["N"]}).evaluate({"M": SH_ENV["M"], "K": SH_ENV["K"]})
            two_vals = [d if isinstance(d, int) else d.value for d in two]
        except Exception as e:  # noqa: BLE001
            bad.append(("shape_query_raises", f"step {step} {op}: {type(e).__name__}: {e}"[:140]))
            break
        if got_syms != want_syms:
            bad.append(("shape_free_symbols_do_not_match_its_dimensions", f"step {step} {op}: got {sorted(got_syms)} want {sorted(want_syms)}"))
            break
        if got_vals != want_vals or two_vals != want_vals:
            bad.append(("shape_evaluates_differently_from_its_dimensions", f"step {step} {op}: complete {got_vals} partial-then-rest {two_vals} want {want_vals}"))
            break
    return bad


def _sh_work(task):
    initial, depth = task
    ops = _sh_ops(len(initial))
    found = {}
    n = 0
    for h in itertools.product(ops, repeat=depth):
        if not any(o[0] == "set" for o in h):
            continue
        n += 1
        for clause, detail in _sh_run(initial, h):
            found.setdefault(f"shape_history|{clause}", {"clause": clause, "detail": f"initial={[tree_key(SH_DIMS[i]) for i in initial]} history={list(h)} {detail}", "shape_history": [list(initial), [list(o) for o in h]]})
    # frozen shapes (what a deserialised model holds) cannot be assigned to: histories of evaluations whose bindings
    # mapping is one object the caller keeps updating
    ev = [("evaluate_shared", ks) for ks in ((), ("N",), ("M", "K"), ("N", "M"), ("N", "M", "K"))] + [("free_symbols",)]
    for frozen in (True, False):
        for h in itertools.product(ev, repeat=min(depth, 3)):
            n += 1
            for clause, detail in _sh_run(initial, h, frozen=frozen):
                found.setdefault(f"shape_history|{clause}|shared_bindings", {"clause": clause, "detail": f"initial={[tree_key(SH_DIMS[i]) for i in initial]} frozen={frozen} history={list(h)} {detail}",
                                                                            "shape_history": [list(initial), [list(o) for o in h], frozen]})
    return n, found


def main(tier):
    r = common.Run("C16", "exploration", tier)
    # length 3 from all 25 initial shapes in both tiers (length 4 costs about half an hour per initial shape)
    sh_tasks = [((a, b), 3) for a in range(len(SH_DIMS)) for b in range(len(SH_DIMS))]
    sh_res = common.pmap(_sh_work, sh_tasks, chunksize=1)
    sh_runs = sum(a for a, _ in sh_res)
    for _, f in sh_res:
        for key, v in sorted(f.items()):
            if not any(key == k for k in r_keys_seen):
                r_keys_seen.add(key)
                r.violation(key, f"{v['clause']}: {v['detail']}", {"engine": "E1", "shape_history": v["shape_history"], "oracle": v["clause"], "detail": v["detail"]})
    syms = ("N", "M")
    if tier == "quick":
        plans = [
            ([("sym", "N"), ("sym", "M"), ("int", 2), ("int", 3)], 1, BIN, UN, (1, 2, 3, 5, 8), True),
            ([("sym", "N"), ("int", 2), ("int", 3)], 2, BIN, UN, (1, 2, 3, 5, 8), False),
            ([("sym", "N"), ("sym", "M"), ("int", 2)], 2, ["+", "-", "*", "//", "%"], ["neg"], (1, 2, 5), False),
        ]
        parse_len = 6
    else:
        plans = [
            ([("sym", "N"), ("sym", "M"), ("int", 1), ("int", 2), ("int", 3)], 1, BIN, UN, (1, 2, 3, 5, 8), True),
            ([("sym", "N"), ("sym", "M"), ("int", 1), ("int", 2), ("int", 3)], 2, BIN, UN, (1, 2, 3, 5, 8), False),
            ([("sym", "N"), ("int", 2), ("int", 3)], 2, BIN, UN, (1, 2, 3, 5, 8), True),
            ([("sym", "N"), ("int", 2)], 3, ["+", "-", "*", "//", "/", "%"], ["neg", "ceil"], (1, 2, 3, 5, 8), False),
        ]
        parse_len = 7
    tasks = []
    ntrees = 0
    # rounding operators on top of every depth-2 rational expression (sign of the operand undetermined)
    inner = gen_trees([("sym", "N"), ("int", 2), ("int", 3)], 2, ["+", "-", "*", "/"], ["neg"])
    top = [(u, t) for t in inner if is_sym(t) for u in ("floor", "ceil", "trunc")]
    ntrees += len(top)
    for i in range(0, len(top), 40):
        tasks.append((top[i:i + 40], syms, (1, 2, 3, 5, 8, 13), True))
    # identity-looking integer operands (0 and 1, either side) on top of rational-valued expressions
    N = ("sym", "N")
    inner1 = [t for t in gen_trees([N, ("int", 2), ("int", 3)], 1, ["+", "-", "*", "/"], ["neg"]) if is_sym(t)]
    ident = []
    for t in inner1:
        for op in ("+", "-", "*", "/", "//", "%"):
            for c in (0, 1):
                ident.append((op, t, ("int", c)))
                ident.append((op, ("int", c), t))
    ident += [(op, t, ("int", 1)) for t in inner if is_sym(t) for op in ("//", "%")]
    ntrees += len(ident)
    for i in range(0, len(ident), 200):
        tasks.append((ident[i:i + 200], syms, (1, 2, 3, 5, 8, 13), False))
    # nested rounding with non-unit coefficients in between, simplified: floor(b*floor(N/a)/d) and relatives
    nested = []
    for a in (2, 3):
        inners = [("//", N, ("int", a)), ("ceil", ("/", N, ("int", a))), ("%", N, ("int", a)), ("trunc", ("/", N, ("int", a))), ("floor", ("/", ("+", N, ("int", 1)), ("int", a)))]
        for it in inners:
            mids = [it, ("+", it, ("int", 1))]
            for b in (2, 3):
                mids += [("*", it, ("int", b)), ("+", ("*", it, ("int", b)), ("int", 1)), ("*", ("int", b), it)]
            for md in mids:
                for d in (2, 3):
                    nested += [("//", md, ("int", d)), ("floor", ("/", md, ("int", d))), ("ceil", ("/", md, ("int", d))), ("%", md, ("int", d))]
    # a modulo of a product that contains another modulo, the other factor symbolic, the two moduli equal or different
    modprod = []
    for X in (N, ("+", N, ("int", 1))):
        for A in (("int", 3), ("sym", "M")):
            for Y in (N, ("sym", "M")):
                for B in (("int", 5), ("int", 3)):
                    modprod += [("%", ("*", ("%", X, A), Y), B), ("%", ("*", Y, ("%", X, A)), B)]
    ntrees += len(modprod)
    for i in range(0, len(modprod), 4):
        tasks.append((modprod[i:i + 4], syms, (1, 2, 3, 5, 8), True))
    ntrees += len(nested)
    for i in range(0, len(nested), 16):
        tasks.append((nested[i:i + 16], syms, tuple(range(1, 14)), True))
    # nested rounding whose OUTER divisor is symbolic and changes sign over the bindings (N - M, M - N, 2 - N, -N ...),
    # simplified: identities such as floor(floor(x)/n) == floor(x/n) hold for positive n only
    M = ("sym", "M")
    signed = [("-", N, M), ("-", M, N), ("-", ("int", 2), N), ("-", N, ("int", 3)), ("neg", N), ("-", ("int", 1), M), ("*", ("-", N, M), ("int", 2))]
    inner_round = []
    for a in (("int", 2), ("int", 3), M):
        inner_round += [("//", N, a), ("floor", ("/", N, a)), ("ceil", ("/", N, a)), ("%", N, a), ("trunc", ("/", N, a))]
    signed_div = []
    for it in inner_round:
        for dv in signed:
            signed_div += [("//", it, dv), ("floor", ("/", it, dv)), ("ceil", ("/", it, dv)), ("%", it, dv), ("//", ("+", it, ("int", 1)), dv)]
    ntrees += len(signed_div)
    for i in range(0, len(signed_div), 12):
        tasks.append((signed_div[i:i + 12], syms, (1, 2, 3, 4, 5, 8), True))
    for leaves, depth, bins, uns, domain, simp in plans:
        trees = gen_trees(leaves, depth, bins, uns)
        ntrees += len(trees)
        for i in range(0, len(trees), 40):
            tasks.append((trees[i:i + 40], syms, domain, simp))
    res = common.pmap(_work_trees, common.shuffled(tasks, "c16"), chunksize=1)
    evals = sum(a for a, _, _, _ in res)
    skipped = sum(b for _, b, _, _ in res)
    status = {}
    found = {}
    for _, _, st, f in res:
        for k, v in st.items():
            status[k] = status.get(k, 0) + v
        for k, v in f.items():
            found.setdefault(k, v)
    # parser
    ptasks = []
    for length in range(1, parse_len + 1):
        for t in TOKENS:
            ptasks.append((length, [t]))
    pres = common.pmap(_work_parse, common.shuffled(ptasks, "c16p"), chunksize=1)
    nstr = sum(a for a, _, _, _ in pres)
    ngr = sum(b for _, b, _, _ in pres)
    pevals = sum(c for _, _, c, _ in pres)
    for _, _, _, f in pres:
        for k, v in f.items():
            found.setdefault(k, v)
    # function forms of the grammar
    for text in FUNC_STRINGS:
        for n in (1, 2, 3, 5, 8):
            want = func_ref(text, n)
            pevals += 1
            try:
                got = to_fraction(ir.SymbolicDim(text).evaluate({"N": n}))
            except Exception as e:  # noqa: BLE001
                found.setdefault(f"parse|function_form_fails|{text}", {"text": text, "clause": "function_form_fails", "detail": f"{type(e).__name__}: {e}"[:120]})
                continue
            if got != want:
                found.setdefault(f"parse|wrong_meaning|{text}", {"text": text, "clause": "wrong_meaning", "detail": f"N={n}: got {got} want {want}"})
    # serde round trip of dim_param for every depth-1 tree
    leaves1 = [("sym", "N"), ("sym", "M"), ("int", 2), ("int", 3)]
    nser = 0
    for t in gen_trees(leaves1, 1, BIN, UN):
        try:
            d = build(t)
        except (NotConstructible, BadOperatorResult):  # the latter is reported by the tree family
            continue
        if isinstance(d, int):
            continue
        try:
            v = ir.Value(name="v", shape=ir.Shape([d, 2]), type=ir.TensorType(ir.DataType.FLOAT))
            proto = ir.serde.serialize_value(v)
            v2 = ir.serde.deserialize_value_info_proto(proto, None)
            d2 = v2.shape[0]
            nser += 1
            for n, m in ((2, 3), (5, 1)):
                env = {"N": n, "M": m}
                try:
                    want = ref_eval(t, env)
                except Skip:
                    continue
                got = to_fraction(d2.evaluate(env)) if not isinstance(d2, int) else Fraction(d2)
                if got != want:
                    found.setdefault(f"serde|wrong_value|{tree_key(t)}", {"tree": t, "clause": "dim_param_round_trip_changes_value", "detail": f"{d.value!r}->{getattr(d2, 'value', d2)!r} {env}: got {got} want {want}"})
        except Exception as e:  # noqa: BLE001
            found.setdefault(f"serde|raises|{tree_key(t)}", {"tree": t, "clause": "dim_param_round_trip_raises", "detail": f"{type(e).__name__}: {e}"[:120]})
    for key, f in sorted(found.items()):
        r.violation(key, f"{f['clause']}: {f['detail']}", {"engine": "E6", "input": f.get("tree") or f.get("text"), "oracle": f["clause"], "detail": f["detail"]})
    r.sample({"tree": ("//", ("-", ("sym", "N"), ("int", 3)), ("int", 2)), "bindings": "N in {1,2,3,5,8}"})
    r.sample({"parser_string": "- N ** 2", "reference": "Python arithmetic over Fractions"})
    r.coverage.update({
        "evaluations": evals + pevals, "distinct_nontrivial": ntrees + ngr,
        "rule": "expression trees: every tree of the stated depth over the stated leaves/operators x every binding (complete, and both partial orders); parser: every token string up to the stated length that the documented grammar derives; distinct_nontrivial = distinct trees + distinct grammar strings",
        "exhaustive": True,
        "trees": ntrees, "tree_status": status, "bindings_skipped_division_by_zero": skipped,
        "parser_token_strings": nstr, "parser_grammar_strings": ngr, "parser_max_tokens": parse_len,
        "serde_round_trips": nser, "function_form_strings": len(FUNC_STRINGS), "shape_histories": sh_runs,
    })
    r.assumptions += ["operand forms Python itself rejects (int // dim, int % dim: no reflected method) are counted as not constructible",
                      "powers are compared only for small integer exponents (|e| <= 12)",
                      "bindings are positive integers (dimensions)"]
    return r.finish()


def replay(obj):
    def fix(x):
        return tuple(fix(y) for y in x) if isinstance(x, list) else x

    if obj.get("shape_history"):
        initial, hist = obj["shape_history"][:2]
        frozen = obj["shape_history"][2] if len(obj["shape_history"]) > 2 else False
        bad = _sh_run(tuple(initial), [tuple(tuple(x) if isinstance(x, list) else x for x in o) for o in hist], frozen=frozen)
        return (not [b for b in bad if b[0] == obj["oracle"]]), bad
    inp = obj["input"]
    if isinstance(inp, str):
        for n in (1, 2, 3, 5):
            try:
                want = py_ref(inp, n)
                got = to_fraction(ir.SymbolicDim(inp).evaluate({"N": n}))
            except Skip:
                continue
            except Exception as e:  # noqa: BLE001
                return False, repr(e)
            if want is not None and got != want:
                return False, f"N={n}: got {got} want {want}"
        return True, "agrees"
    n, s, v, st = check_tree(fix(inp), ("N", "M"), (1, 2, 3, 5, 8), True)
    bad = [c for c in v if c[0] == obj["oracle"]]
    return (not bad), v[:5]
