"""C12 — topological sort: correct across scopes, stable, deterministic, atomic.

Small-scope exhaustive enumeration of graph structures (all wirings incl. cycles, repeated and
optional inputs, a multi-output node, nested bodies capturing outer values) x all initial
permutations; each structure is built twice with different object creation orders.
Reference (B2): per-graph dependency relation via networkx.
"""

from __future__ import annotations

import itertools

import networkx as nx
import onnx_ir as ir
from onnx_ir.passes.common import topological_sort

from mc import common

# A structure is a dict:
#   main: list of node specs, each (inputs tuple)         node names m0..
#   body: optional (host index, [node specs])             node names b0..
#   deep: optional (host body index, [node specs])        node names c0..   (body of a body node)
#   perm_main / perm_body: initial order
# An input is None | "x" | ("m", i, k) | ("b", j, 0) | ("c", j, 0)


def _mk(struct, creation_reversed=False):
    x = ir.Value(name="x")
    specs = {}
    for i, ins in enumerate(struct["main"]):
        specs[f"m{i}"] = ins
    if struct.get("body"):
        for j, ins in enumerate(struct["body"][1]):
            specs[f"b{j}"] = ins
    if struct.get("deep"):
        for j, ins in enumerate(struct["deep"][1]):
            specs[f"c{j}"] = ins
    names = list(specs)
    order = names[::-1] if creation_reversed else names
    nodes = {}
    for nm in order:
        nout = 2 if nm == "m0" else 1
        nodes[nm] = ir.Node("", "Op", [None] * len(specs[nm]), num_outputs=nout, name=nm)
        for k, o in enumerate(nodes[nm].outputs):
            o.name = f"{nm}_o{k}"

    def val(ref):
        if ref is None:
            return None
        if ref == "x":
            return x
        return nodes[f"{ref[0]}{ref[1]}"].outputs[ref[2]]

    for nm in names:
        for idx, ref in enumerate(specs[nm]):
            nodes[nm].replace_input_with(idx, val(ref))
    if struct.get("dangling"):
        # a consumer that belongs to no graph (a replaced node dropped without detaching it, a candidate never added)
        nodes["d0"] = ir.Node("", "Op", [val(r) for r in struct["dangling"]], num_outputs=1, name="d0")
    graphs = {}
    if struct.get("deep"):
        hostj, dspecs = struct["deep"]
        dn = [f"c{j}" for j in struct.get("perm_deep") or range(len(dspecs))]
        graphs["deep"] = ir.Graph([], [], nodes=[nodes[n] for n in dn], name="deep")
        nodes[f"b{hostj}"].attributes.add(ir.AttrGraph("body", graphs["deep"]))
    if struct.get("body"):
        host, bspecs = struct["body"]
        bn = [f"b{j}" for j in struct.get("perm_body") or range(len(bspecs))]
        graphs["body"] = ir.Graph([], [], nodes=[nodes[n] for n in bn], name="body")
        nodes[f"m{host}"].attributes.add(ir.AttrGraph("body", graphs["body"]))
    mn = [f"m{i}" for i in struct.get("perm_main") or range(len(struct["main"]))]
    graphs["main"] = ir.Graph([x], [], nodes=[nodes[n] for n in mn], name="main")
    return graphs, nodes


def _owner(struct):
    """node name -> (graph name, enclosing node name or None)"""
    own = {}
    for i in range(len(struct["main"])):
        own[f"m{i}"] = ("main", None)
    if struct.get("body"):
        for j in range(len(struct["body"][1])):
            own[f"b{j}"] = ("body", f"m{struct['body'][0]}")
    if struct.get("deep"):
        for j in range(len(struct["deep"][1])):
            own[f"c{j}"] = ("deep", f"b{struct['deep'][0]}")
    return own


def _reference(struct):
    """Per-graph dependency digraphs (B2): dep(a, b) iff b or a node nested in b uses a value produced by a."""
    own = _owner(struct)
    specs = {}
    for i, ins in enumerate(struct["main"]):
        specs[f"m{i}"] = ins
    for key, pre in (("body", "b"), ("deep", "c")):
        if struct.get(key):
            for j, ins in enumerate(struct[key][1]):
                specs[f"{pre}{j}"] = ins
    dgs = {g: nx.DiGraph() for g in {v[0] for v in own.values()}}
    for n, (g, _) in own.items():
        dgs[g].add_node(n)

    def ancestors_chain(n):
        # n, its enclosing node, that node's enclosing node, ...
        out = [n]
        while own[out[-1]][1] is not None:
            out.append(own[out[-1]][1])
        return out

    for user, ins in specs.items():
        for ref in ins:
            if ref is None or ref == "x":
                continue
            prod = f"{ref[0]}{ref[1]}"
            pg = own[prod][0]
            # lift the user to the producer's graph
            for anc in ancestors_chain(user):
                if own[anc][0] == pg:
                    dgs[pg].add_edge(prod, anc)
                    break
    return dgs


def _initial_orders(struct):
    out = {"main": [f"m{i}" for i in struct.get("perm_main") or range(len(struct["main"]))]}
    if struct.get("body"):
        out["body"] = [f"b{j}" for j in struct.get("perm_body") or range(len(struct["body"][1]))]
    if struct.get("deep"):
        out["deep"] = [f"c{j}" for j in struct.get("perm_deep") or range(len(struct["deep"][1]))]
    return out


def _orders(graphs):
    return {g: [n.name for n in graphs[g]] for g in graphs}


def _valid(order, dg):
    pos = {n: i for i, n in enumerate(order)}
    return all(pos[a] < pos[b] for a, b in dg.edges if a != b) and not any(a == b for a, b in dg.edges)


def check_struct(struct, via="graph"):
    """Returns list of (clause, detail)."""
    out = []
    dgs = _reference(struct)
    cyclic = any(not nx.is_directed_acyclic_graph(dg) for dg in dgs.values())
    results = []
    for rev in (False, True):
        graphs, nodes = _mk(struct, creation_reversed=rev)
        before = _orders(graphs)
        exc = None
        try:
            if via == "graph":
                graphs["main"].sort()
            elif via == "pass":
                m = ir.Model(graphs["main"], ir_version=10)
                topological_sort.TopologicalSortPass()(m)
            else:
                f = ir.Function("d", "f", "", graph=graphs["main"], attributes=[])
                f.sort()
        except ValueError as e:
            exc = e
        except Exception as e:  # noqa: BLE001
            out.append(("unexpected_exception", f"{type(e).__name__}: {e}"))
            return out
        after = _orders(graphs)
        results.append((exc is not None, after))
        if cyclic:
            if exc is None:
                out.append(("cycle_not_reported", after))
            elif after != before:
                out.append(("order_changed_although_cycle", (before, after)))
        else:
            if exc is not None:
                out.append(("acyclic_rejected", str(exc)[:60]))
                continue
            for g, dg in dgs.items():
                if sorted(after[g]) != sorted(before[g]):
                    out.append(("graph_lost_or_gained_nodes", (g, before[g], after[g])))
                elif not _valid(after[g], dg):
                    out.append(("result_not_topological", (g, after[g], sorted(dg.edges))))
            if all(_valid(before[g], dgs[g]) for g in dgs) and after != before:
                out.append(("valid_order_changed", (before, after)))
            else:
                for g in dgs:
                    if _valid(before[g], dgs[g]) and after[g] != before[g]:
                        out.append(("valid_graph_order_changed_while_other_graph_unsorted", (g, before, after)))
            # idempotence
            try:
                graphs["main"].sort()
                again = _orders(graphs)
                if again != after:
                    out.append(("second_sort_not_noop", (after, again)))
            except Exception as e:  # noqa: BLE001
                out.append(("second_sort_raises", str(e)[:60]))
        if out:
            break
    if not out and len(results) == 2 and results[0] != results[1]:
        out.append(("depends_on_object_creation_order", results))
    return out


def _input_options(scope_nodes):
    """All input tuples of length <= 2 over the visible references (ordered, repeated allowed)."""
    refs = [None, "x"] + scope_nodes
    opts = [()]
    opts += [(a,) for a in refs if a is not None]
    opts += [(a, b) for a in refs for b in refs if not (a is None and b is None)]
    return opts


def gen_main_only(n):
    vis = [("m", i, 0) for i in range(n)] + [("m", 0, 1)]
    opts = _input_options(vis)
    for combo in itertools.product(opts, repeat=n):
        yield {"main": list(combo)}


def gen_with_body(n, k, reduced=True):
    """n main nodes (single inputs to keep the space small), body of k nodes on each host, body inputs over all visible."""
    mvis = [("m", i, 0) for i in range(n)] + [("m", 0, 1)]
    mopts = [()] + [(a,) for a in ["x"] + mvis]
    if not reduced:
        mopts = _input_options(mvis)
    for host in range(n):
        bvis = mvis + [("b", j, 0) for j in range(k)]
        bopts = [(a,) for a in ["x"] + bvis] + [(a, b) for a in bvis for b in bvis if a < b]
        for mcombo in itertools.product(mopts, repeat=n):
            for bcombo in itertools.product(bopts, repeat=k):
                yield {"main": list(mcombo), "body": (host, list(bcombo))}


def gen_deep(n):
    """n main nodes, body with 1 node on a host, deep body (1 node) on that body node: two nesting levels."""
    mvis = [("m", i, 0) for i in range(n)]
    mopts = [()] + [(a,) for a in ["x"] + mvis]
    for host in range(n):
        bvis = mvis + [("b", 0, 0)]
        cvis = bvis + [("c", 0, 0)]
        for mcombo in itertools.product(mopts, repeat=n):
            for b in [(a,) for a in ["x"] + bvis]:
                for c in [(a,) for a in ["x"] + cvis] + [(a, b2) for a in cvis for b2 in cvis if a < b2]:
                    yield {"main": list(mcombo), "body": (host, [b]), "deep": (0, [c])}


def gen_dangling():
    """Every 2-node main graph and every 2+1 nested structure, with a graph-less consumer of each visible value."""
    for st in gen_main_only(2):
        for ref in [("m", 0, 0), ("m", 0, 1), ("m", 1, 0), "x"]:
            yield dict(st, dangling=(ref,))
    for st in gen_with_body(2, 1):
        for ref in [("m", 0, 0), ("m", 1, 0), ("b", 0, 0)]:
            yield dict(st, dangling=(ref,))


# ---------------------------------------------------------------------------
# sort - edit - sort histories: the second sort must follow the dependency relation as it is *now*


def _ir_reference(graphs, hosts):
    """Dependency digraphs read off the live IR: dep(a, b) iff b or a node nested in b uses a value produced by a.
    hosts: graph name -> name of the node that holds it (None for main)."""
    gname = {id(g): k for k, g in graphs.items()}
    dgs = {k: nx.DiGraph() for k in graphs}
    node_graph = {}
    for k, g in graphs.items():
        for n in g:
            dgs[k].add_node(n.name)
            node_graph[n.name] = k

    def chain(nname):
        out = [nname]
        while hosts.get(node_graph[out[-1]]) is not None:
            out.append(hosts[node_graph[out[-1]]])
        return out

    for k, g in graphs.items():
        for n in g:
            for v in n.inputs:
                if v is None or v.producer() is None or v.producer().graph is None:
                    continue
                p = v.producer()
                pg = gname.get(id(p.graph))
                if pg is None:
                    continue
                for anc in chain(n.name):
                    if node_graph[anc] == pg:
                        dgs[pg].add_edge(p.name, anc)
                        break
    return dgs


def gen_history_structs():
    """Three main nodes (<= 1 input each, from x, a free value f, or a node output), and two main nodes with a one-node body."""
    refs = ["x", "f", ("m", 0, 0), ("m", 0, 1), ("m", 1, 0), ("m", 2, 0)]
    opts = [()] + [(a,) for a in refs]
    for combo in itertools.product(opts, repeat=3):
        yield {"main": list(combo)}
    refs2 = ["x", "f", ("m", 0, 0), ("m", 1, 0)]
    opts2 = [()] + [(a,) for a in refs2]
    for host in range(2):
        for mc in itertools.product(opts2, repeat=2):
            for b in [(a,) for a in refs2]:
                yield {"main": list(mc), "body": (host, [b])}


def _edits(struct):
    names = [f"m{i}" for i in range(len(struct["main"]))] + ([f"b{j}" for j in range(len(struct["body"][1]))] if struct.get("body") else [])
    specs = {f"m{i}": ins for i, ins in enumerate(struct["main"])}
    if struct.get("body"):
        specs.update({f"b{j}": ins for j, ins in enumerate(struct["body"][1])})
    vals = ["x", "f"] + [("m", i, 0) for i in range(len(struct["main"]))] + [("m", 0, 1)]
    out = [("produce_f", "append"), ("produce_f", "front"), ("produce_f_from", ("m", len(struct["main"]) - 1, 0))]
    for nm in names:
        if specs[nm]:
            for r in vals:
                out.append(("replace_input", nm, r))
    for a in vals[1:]:
        for b in vals:
            if a != b:
                out.append(("rauw", a, b))
    # moves that change no dependency (a node is put after / before another node of its own graph, possibly exactly
    # where it already is): the second sort must still produce a valid order of exactly the same nodes
    groups = [[f"m{i}" for i in range(len(struct["main"]))]] + ([[f"b{j}" for j in range(len(struct["body"][1]))]] if struct.get("body") else [])
    for grp in groups:
        for a in grp:
            for b in grp:
                if a != b:
                    for how in ("insert_after", "insert_before", "node_append", "node_prepend"):
                        out.append(("move", how, a, b))
            out.append(("move", "graph_append", None, a))
    if struct.get("body"):
        # the body is taken off its node and put back (by assignment) after it was sorted on its own
        out.append(("reattach_body", "assign"))
        out.append(("reattach_body", "add"))
    return out


def check_history(struct, edit, via="graph"):
    """sort (warming whatever the implementation caches), one edit, sort again."""
    out = []
    f = ir.Value(name="f")
    x = ir.Value(name="x")
    specs = {f"m{i}": ins for i, ins in enumerate(struct["main"])}
    if struct.get("body"):
        specs.update({f"b{j}": ins for j, ins in enumerate(struct["body"][1])})
    nodes = {}
    for nm in specs:
        nodes[nm] = ir.Node("", "Op", [None] * len(specs[nm]), num_outputs=2 if nm == "m0" else 1, name=nm)
        for k, o in enumerate(nodes[nm].outputs):
            o.name = f"{nm}_o{k}"

    def val(ref):
        if ref is None:
            return None
        if ref == "x":
            return x
        if ref == "f":
            return f
        return nodes[f"{ref[0]}{ref[1]}"].outputs[ref[2]]

    for nm, ins in specs.items():
        for idx, ref in enumerate(ins):
            nodes[nm].replace_input_with(idx, val(ref))
    graphs, hosts = {}, {"main": None}
    if struct.get("body"):
        host, bspecs = struct["body"]
        graphs["body"] = ir.Graph([], [], nodes=[nodes[f"b{j}"] for j in (struct.get("perm_body") or range(len(bspecs)))], name="body")
        nodes[f"m{host}"].attributes.add(ir.AttrGraph("body", graphs["body"]))
        hosts["body"] = f"m{host}"
    graphs["main"] = ir.Graph([x], [], nodes=[nodes[f"m{i}"] for i in (struct.get("perm_main") or range(len(struct["main"])))], name="main")

    try:
        graphs["main"].sort()
        first_ok = True
    except ValueError:
        first_ok = False
    for n in nodes.values():
        n.predecessors()
        n.successors()
    # the edit
    try:
        if edit[0] in ("produce_f", "produce_f_from"):
            if f.producer() is not None:
                return out
            src = x if edit[0] == "produce_f" else val(edit[1])
            pnode = ir.Node("", "Op", [src], outputs=[f], name="p_f")
            if edit[0] == "produce_f" and edit[1] == "front" and len(graphs["main"]):
                graphs["main"].insert_before(graphs["main"][0], pnode)
            else:
                graphs["main"].append(pnode)
            nodes["p_f"] = pnode
        elif edit[0] == "replace_input":
            nodes[edit[1]].replace_input_with(0, val(edit[2]))
        elif edit[0] == "move":
            _, how, a, b = edit
            g = nodes[b].graph
            if how == "insert_after":
                g.insert_after(nodes[a], nodes[b])
            elif how == "insert_before":
                g.insert_before(nodes[a], nodes[b])
            elif how == "node_append":
                nodes[a].append(nodes[b])
            elif how == "node_prepend":
                nodes[a].prepend(nodes[b])
            else:
                g.append(nodes[b])
        elif edit[0] == "reattach_body":
            hostn = nodes[hosts["body"]]
            del hostn.attributes["body"]
            graphs["main"].sort()  # sorted while the body is away: the host has no nested dependencies now
            graphs["body"].sort()  # ... and the body is sorted on its own
            if edit[1] == "assign":
                hostn.attributes["body"] = ir.AttrGraph("body", graphs["body"])
            else:
                hostn.attributes.add(ir.AttrGraph("body", graphs["body"]))
        else:
            val(edit[1]).replace_all_uses_with(val(edit[2]))
    except Exception:  # noqa: BLE001  the edit itself is rejected: nothing to check
        return out
    dgs = _ir_reference(graphs, hosts)
    union = nx.DiGraph()
    for dg in dgs.values():
        union.add_edges_from(dg.edges)
    cyclic = any(not nx.is_directed_acyclic_graph(dg) for dg in dgs.values())
    before = _orders(graphs)
    try:
        graphs["main"].sort()
        exc = None
    except ValueError as e:
        exc = e
    except Exception as e:  # noqa: BLE001
        return [("unexpected_exception_after_edit", f"{type(e).__name__}: {e}"[:100])]
    after = _orders(graphs)
    if cyclic:
        if exc is None:
            out.append(("cycle_not_reported_after_edit", (edit, after)))
        elif after != before:
            out.append(("order_changed_although_cycle_after_edit", (edit, before, after)))
        return out
    if exc is not None:
        out.append(("acyclic_rejected_after_edit", (edit, str(exc)[:60])))
        return out
    for g, dg in dgs.items():
        if sorted(after[g]) != sorted(before[g]):
            out.append(("graph_lost_or_gained_nodes_after_edit", (edit, g, before[g], after[g])))
        elif not _valid(after[g], dg):
            out.append(("result_not_topological_after_edit", (edit, g, after[g], sorted(dg.edges))))
    if all(_valid(before[g], dgs[g]) for g in dgs) and after != before:
        out.append(("valid_order_changed_after_edit", (edit, before, after)))
    del first_ok
    return out


def _history_work(structs):
    n = 0
    found = {}
    for st in structs:
        for s in with_perms(st):
            for edit in _edits(s):
                n += 1
                for clause, detail in check_history(s, edit):
                    key = f"history|{clause}|{edit[0]}"
                    if key not in found:
                        found[key] = {"struct": dict(s, history_edit=edit), "via": "graph", "clause": clause, "detail": detail}
    return "sort_edit_sort", n, 0, n, found


def with_perms(struct):
    if struct.get("identity_only"):
        yield struct
        return
    n = len(struct["main"])
    kb = len(struct["body"][1]) if struct.get("body") else 0
    for pm in itertools.permutations(range(n)):
        for pb in (itertools.permutations(range(kb)) if kb else [None]):
            s = dict(struct)
            s["perm_main"] = list(pm)
            if pb is not None:
                s["perm_body"] = list(pb)
            yield s


def families(tier):
    fams = [("main3", lambda: gen_main_only(3), "graph"), ("main2_body2", lambda: gen_with_body(2, 2), "graph"),
            ("main3_body1", lambda: gen_with_body(3, 1), "graph"), ("deep2", lambda: gen_deep(2), "graph"),
            ("main2_pass", lambda: gen_main_only(2), "pass"), ("main2_function", lambda: gen_main_only(2), "function")]
    fams += [("main1_body2", lambda: gen_with_body(1, 2, reduced=False), "graph"), ("main1_body3", lambda: gen_with_body(1, 3), "graph"),
             ("main1_body2_function", lambda: gen_with_body(1, 2, reduced=False), "function"), ("main1_body2_pass", lambda: gen_with_body(1, 2, reduced=False), "pass"),
             ("deep1", lambda: gen_deep(1), "graph"), ("dangling_consumer", gen_dangling, "graph"),
             # two nesting levels through the other two entry points as well
             ("deep1_pass", lambda: gen_deep(1), "pass"), ("deep2_pass", lambda: gen_deep(2), "pass"), ("deep1_function", lambda: gen_deep(1), "function"),
             # four outer nodes and a one-node body, initial order as listed (stability of an order that is already valid)
             ("main4_body1_listed_order", lambda: (dict(st, identity_only=True) for st in gen_with_body(4, 1)), "graph")]
    if tier == "thorough":
        fams += [("main4_body1", lambda: gen_with_body(4, 1), "graph"), ("main2_body3", lambda: gen_with_body(2, 3), "graph")]
        fams += [("main3_body2", lambda: gen_with_body(3, 2), "graph"), ("deep3", lambda: gen_deep(3), "graph"),
                 ("main2_body2_full", lambda: gen_with_body(2, 2, reduced=False), "graph"),
                 ("main3_pass", lambda: gen_main_only(3), "pass")]
    return fams


def _work(task):
    fam, via, structs = task
    n = cyc = reordered = 0
    found = {}
    for st in structs:
        for s in with_perms(st):
            n += 1
            v = check_struct(s, via)
            dgs = _reference(s)
            if any(not nx.is_directed_acyclic_graph(dg) for dg in dgs.values()):
                cyc += 1
            elif not all(_valid(_initial_orders(s)[g], dg) for g, dg in dgs.items()):
                reordered += 1
            for clause, detail in v:
                key = f"{via}|{clause}"
                if key not in found:
                    found[key] = {"struct": s, "via": via, "clause": clause, "detail": detail}
    return fam, n, cyc, reordered, found


# ---------------------------------------------------------------------------
# One pass over a model with several scopes (main graph, two functions), each sorted / unsorted / cyclic, each
# optionally holding its nodes inside a control-flow body: a cycle anywhere must leave EVERY order as it was

MS_STATES = ("sorted", "unsorted", "cyclic", "unsorted_in_body", "cyclic_in_body")


def _ms_scope(tag, state):
    x = ir.Value(name=f"{tag}_x")
    a = ir.Node("", "Relu", [x], name=f"{tag}_a")
    b = ir.Node("", "Neg", [a.outputs[0]], name=f"{tag}_b")
    c = ir.Node("", "Abs", [b.outputs[0]], name=f"{tag}_c")
    for n in (a, b, c):
        n.outputs[0].name = n.name + "_o"
    if state.startswith("cyclic"):
        a.replace_input_with(0, c.outputs[0])
    nodes = [a, b, c] if state.startswith("sorted") or state.startswith("cyclic") else [c, a, b]
    if state.endswith("_in_body"):
        body = ir.Graph([], [c.outputs[0]], nodes=nodes, name=f"{tag}_body")
        host = ir.Node("", "If", [x], [ir.AttrGraph("then_branch", body)], name=f"{tag}_if")
        host.outputs[0].name = f"{tag}_if_o"
        return ir.Graph([x], [host.outputs[0]], nodes=[host], name=f"{tag}_g", opset_imports={"": 20})
    return ir.Graph([x], [c.outputs[0]], nodes=nodes, name=f"{tag}_g", opset_imports={"": 20})


def _ms_orders(model):
    out = {}
    for scope in [model.graph] + [f for f in model.functions.values()]:
        for g in [scope] + list(scope.subgraphs()):
            out[g.name] = [n.name for n in g]
    return out


def check_multi_scope(states):
    from onnx_ir.passes.common import TopologicalSortPass

    main = _ms_scope("m", states[0])
    fns = [ir.Function("local", f"F{i}", "", graph=_ms_scope(f"f{i}", st), attributes=[]) for i, st in enumerate(states[1:])]
    model = ir.Model(main, ir_version=10, functions=fns)
    before = _ms_orders(model)
    any_cycle = any(s.startswith("cyclic") for s in states)
    try:
        res = TopologicalSortPass()(model)
        exc = None
    except ValueError as e:
        res, exc = None, e
    except Exception as e:  # noqa: BLE001
        return [("pass_raises_something_else", f"{type(e).__name__}: {e}"[:100])]
    after = _ms_orders(model)
    out = []
    if any_cycle:
        if exc is None:
            out.append(("cycle_not_reported_by_the_pass", list(states)))
        elif after != before:
            out.append(("order_changed_in_some_scope_although_the_pass_raised_for_a_cycle", {k: (before[k], after[k]) for k in before if before[k] != after[k]}))
        return out
    if exc is not None:
        out.append(("acyclic_model_rejected_by_the_pass", str(exc)[:80]))
        return out
    for k, order in after.items():
        pos = {n: i for i, n in enumerate(order)}
        tag = k.rsplit("_", 1)[0]
        names = [f"{tag}_a", f"{tag}_b", f"{tag}_c"]
        if all(n in pos for n in names) and not (pos[names[0]] < pos[names[1]] < pos[names[2]]):
            out.append(("scope_left_unsorted_by_the_pass", (k, order)))
    if (after != before) != bool(res.modified):
        out.append(("modified_flag_of_the_pass_wrong", (after != before, res.modified)))
    return out


def check_unnamed_objects():
    """Sorting (directly, through a function, through the pass) moves nodes; it must not touch anything else: nodes
    and values whose names were reset to None stay unnamed, in an order that is already valid and in one that is not."""
    from onnx_ir.passes.common import TopologicalSortPass

    out = []
    for order in ("sorted", "unsorted"):
        for via in ("graph", "function", "pass"):
            x = ir.Value(name="x")
            a = ir.Node("", "Relu", [x], name="a")
            b = ir.Node("", "Neg", [a.outputs[0]], name="b")
            a.outputs[0].name, b.outputs[0].name = "a_o", "b_o"
            g = ir.Graph([x], [b.outputs[0]], nodes=[a, b] if order == "sorted" else [b, a], name="g", opset_imports={"": 20})
            a.name = None
            b.name = None
            a.outputs[0].name = None
            before = ([n.name for n in (a, b)], [a.outputs[0].name, b.outputs[0].name])
            try:
                if via == "graph":
                    g.sort()
                elif via == "function":
                    ir.Function("local", "F", "", graph=g, attributes=[]).sort()
                else:
                    res = TopologicalSortPass()(ir.Model(g, ir_version=10))
                    if order == "sorted" and res.modified:
                        out.append(("pass_reports_modified_for_an_order_that_was_valid", (order, via)))
            except Exception as e:  # noqa: BLE001
                out.append(("sort_raises_on_unnamed_objects", (order, via, f"{type(e).__name__}: {e}"[:80])))
                continue
            after = ([n.name for n in (a, b)], [a.outputs[0].name, b.outputs[0].name])
            if after != before and order == "sorted":  # "a graph already in such an order is left exactly as it was"
                out.append(("sorting_an_already_sorted_graph_changed_names", (order, via, before, after)))
            if [n for n in g] != [a, b]:
                out.append(("result_not_topological", (order, via)))
    return out


def _ms_work(task):
    found = {}
    n = 0
    for states in task:
        n += 1
        for clause, detail in check_multi_scope(states):
            found.setdefault(f"multi_scope_pass|{clause}", {"struct": {"multi_scope": list(states)}, "via": "pass", "clause": clause, "detail": detail})
    return "multi_scope_pass", n, sum(1 for st in task if any(s.startswith("cyclic") for s in st)), 0, found


def main(tier):
    r = common.Run("C12", "exploration", tier)
    tasks = []
    for fam, gen, via in families(tier):
        chunk = []
        for st in gen():
            chunk.append(st)
            if len(chunk) >= 200:
                tasks.append((fam, via, chunk))
                chunk = []
        if chunk:
            tasks.append((fam, via, chunk))
    tasks = common.shuffled(tasks, "c12")
    res = common.pmap(_work, tasks, chunksize=max(1, len(tasks) // (common.NPROC * 8)))
    hs = list(gen_history_structs())
    hstep = max(1, len(hs) // 64)
    res += common.pmap(_history_work, [hs[i:i + hstep] for i in range(0, len(hs), hstep)])
    for clause, detail in check_unnamed_objects():
        res.append(("unnamed_objects", 6, 0, 0, {f"unnamed_objects|{clause}": {"struct": {"unnamed_objects": True}, "via": "graph", "clause": clause, "detail": detail}}))
    ms = list(itertools.product(MS_STATES, repeat=3))
    res += common.pmap(_ms_work, [ms[i:i + 16] for i in range(0, len(ms), 16)])
    per = {}
    found = {}
    for fam, n, cyc, reo, f in res:
        p = per.setdefault(fam, [0, 0, 0])
        p[0] += n
        p[1] += cyc
        p[2] += reo
        for k, v in f.items():
            found.setdefault(k, v)
    for key, f in sorted(found.items()):
        if f["struct"].get("unnamed_objects"):
            v2 = v3 = check_unnamed_objects()
        elif f["struct"].get("multi_scope"):
            v2 = check_multi_scope(tuple(f["struct"]["multi_scope"]))
            v3 = check_multi_scope(tuple(f["struct"]["multi_scope"]))
        elif f["struct"].get("history_edit"):
            st = {k: v for k, v in f["struct"].items() if k != "history_edit"}
            v2 = check_history(st, f["struct"]["history_edit"])
            v3 = check_history(st, f["struct"]["history_edit"])
        else:
            v2 = check_struct(f["struct"], f["via"])
            v3 = check_struct(f["struct"], f["via"])
        stable = [c for c, _ in v2] == [c for c, _ in v3] and any(c == f["clause"] for c, _ in v2)
        r.violation(key, f"{f['clause']}: {f['detail']}", {"engine": "E6", "input": f["struct"], "via": f["via"],
                                                           "oracle": f["clause"], "detail": f["detail"], "address_dependent": not stable})
    total = sum(p[0] for p in per.values())
    r.sample({"main": [("x",), (("m", 0, 1), ("m", 0, 1)), (("m", 1, 0), None)], "perm_main": [2, 0, 1]})
    r.sample({"main": [(), (("m", 0, 0),)], "body": (1, [(("m", 0, 1),), (("b", 0, 0), ("m", 1, 0))]), "perm_main": [1, 0], "perm_body": [1, 0]})
    r.coverage.update({
        "evaluations": total, "distinct_nontrivial": sum(p[1] + p[2] for p in per.values()),
        "rule": "a case is one (wiring, initial permutation) built twice with different object creation orders; non-trivial = cyclic, or acyclic but not already in topological order",
        "exhaustive": True,
        "families": {k: {"cases": v[0], "cyclic": v[1], "needs_reordering": v[2]} for k, v in sorted(per.items())},
    })
    r.assumptions += ["outer nodes never use a value produced inside a nested body (ONNX scoping); generators exclude it",
                      "networkx is trusted for cycle detection"]
    return r.finish()


def replay(obj):
    def fix(x):
        if isinstance(x, list):
            return tuple(fix(y) for y in x)
        return x

    s = obj["input"]
    if s.get("unnamed_objects"):
        v = check_unnamed_objects()
        return (not [x for x in v if x[0] == obj["oracle"]]), v
    if s.get("multi_scope"):
        v = check_multi_scope(tuple(s["multi_scope"]))
        return (not [x for x in v if x[0] == obj["oracle"]]), v
    st = {"main": [fix(i) for i in s["main"]]}
    for k in ("body", "deep"):
        if s.get(k):
            st[k] = (s[k][0], [fix(i) for i in s[k][1]])
    for k in ("perm_main", "perm_body", "perm_deep"):
        if s.get(k):
            st[k] = s[k]
    if s.get("dangling"):
        st["dangling"] = tuple(fix(i) for i in s["dangling"])
    if s.get("history_edit"):
        v = check_history(st, fix(s["history_edit"]))
        bad = [c for c in v if c[0] == obj["oracle"]]
        return (not bad), v
    v = check_struct(st, obj.get("via", "graph"))
    bad = [c for c in v if c[0] == obj["oracle"]]
    return (not bad), v
