"""C10 — external tensor reads never escape the model directory (fail closed).

Exhaustive path enumeration on a real tmpfs sandbox: every location string of up to k components
over a component alphabet (., .., names, symlinks in/out, hard links, sibling sharing the base's
prefix, empty components, absolute forms) x every spelling of the base directory x every read entry
point; reference decision (B4) computed independently with realpath/lstat; opens observed through
the interpreter's audit hook.
"""

from __future__ import annotations

import io
import itertools
import os
import shutil
import signal
import stat
import sys

import numpy as np
import onnx_ir as ir
from onnx_ir import external_data as ed

from mc import common

COMPONENTS = [".", "..", "data.bin", "sub", "d2.bin", "link_in", "link_out", "dir_out", "dir_in", "secret.bin", "outside", "base",
              "base-evil", "x.bin", "hard_out", "hard_in", "", "missing", "link_hard_out", "link_evil", "dir_evil"]

_OPENS: list = []
_WATCH = [False]
_HOOKED = [False]


def _audit(event, args):
    if _WATCH[0] and event == "open" and args:
        _OPENS.append(args[0])


def install():
    if not _HOOKED[0]:
        sys.addaudithook(_audit)
        _HOOKED[0] = True


def make_tree(root):
    b = os.path.join(root, "base")
    os.makedirs(os.path.join(b, "sub"))
    os.makedirs(os.path.join(root, "outside"))
    os.makedirs(os.path.join(root, "base-evil"))

    def w(p, tag):
        with open(p, "wb") as f:
            f.write(tag.encode().ljust(8, b"_"))

    w(os.path.join(b, "data.bin"), "DATA")
    w(os.path.join(b, "sub", "d2.bin"), "SUBD2")
    w(os.path.join(b, "data2.bin"), "DATA2")
    w(os.path.join(root, "outside", "secret.bin"), "SECRET")
    w(os.path.join(root, "outside", "s2.bin"), "SECRET2")
    w(os.path.join(root, "base-evil", "x.bin"), "EVIL")
    os.symlink("data.bin", os.path.join(b, "link_in"))
    os.symlink(os.path.join("..", "outside", "secret.bin"), os.path.join(b, "link_out"))
    os.symlink(os.path.join("..", "outside"), os.path.join(b, "dir_out"))
    os.symlink("sub", os.path.join(b, "dir_in"))
    os.link(os.path.join(root, "outside", "s2.bin"), os.path.join(b, "hard_out"))
    os.link(os.path.join(b, "data2.bin"), os.path.join(b, "hard_in"))
    os.symlink("hard_out", os.path.join(b, "link_hard_out"))  # an allowed in-directory symlink in front of a hard link to an outside file
    os.symlink("hard_in", os.path.join(b, "link_hard_in"))
    os.symlink("base", os.path.join(root, "baselink"))
    # in-directory symlinks (file and directory) whose targets live in the sibling that shares the base's name as a string prefix
    os.symlink(os.path.join("..", "base-evil", "x.bin"), os.path.join(b, "link_evil"))
    os.symlink(os.path.join("..", "base-evil"), os.path.join(b, "dir_evil"))
    # files inside the base directory that are not regular files: a named pipe (opening it blocks until a writer shows
    # up), a symlink to it, and - when the sandbox allows mknod - a character device with the numbers of /dev/zero
    os.mkfifo(os.path.join(b, "pipe_in"))
    os.symlink("pipe_in", os.path.join(b, "link_pipe"))
    try:
        os.mknod(os.path.join(b, "dev_zero"), 0o600 | stat.S_IFCHR, os.makedev(1, 5))
    except OSError:
        pass
    # inside names that also exist outside, to make ".." traversals land on real files
    w(os.path.join(root, "data.bin"), "ROOTDATA")
    return b


def base_spellings(root):
    b = os.path.join(root, "base")
    return [("absolute", b), ("relative", "base"), ("dot_relative", "./base"), ("trailing_slash", "base/"), ("dotdot", "base/../base"),
            ("via_symlink", os.path.join(root, "baselink")), ("relative_symlink", "baselink"), ("double_slash", b.replace("/base", "//base"))]


def reference(base, loc):
    """B4: may a read of (base, loc) return bytes, and which?"""
    p = os.path.realpath(os.path.join(base, loc))
    b = os.path.realpath(base)
    try:
        st = os.stat(p)
    except OSError:
        return None
    if not stat.S_ISREG(st.st_mode) or st.st_nlink != 1:
        return None
    if not (p == b or p.startswith(b + os.sep)):
        return None
    with open(p, "rb") as f:
        return f.read()[:4]


def locations(k):
    seen = set()
    for n in range(1, k + 1):
        for combo in itertools.product(COMPONENTS, repeat=n):
            s = "/".join(combo)
            if s not in seen:
                seen.add(s)
                yield s
    return


def extra_locations(root):
    b = os.path.join(root, "base")
    return [os.path.join(b, "data.bin"), os.path.join(root, "outside", "secret.bin"), "/etc/hostname", b + "/../outside/secret.bin",
            "data.bin/", "sub//d2.bin", "sub/./d2.bin", "./data.bin", "sub/../data.bin", "sub/../../outside/secret.bin", "../base/data.bin",
            "../base-evil/x.bin", "..//outside/secret.bin", "dir_out/secret.bin", "dir_in/d2.bin", "dir_in/../data.bin", "dir_out/../base/data.bin",
            "link_out/", "..\\outside\\secret.bin", "sub\\..\\..\\outside\\secret.bin", "..\\data.bin", "sub\\d2.bin", "dir_out\\secret.bin",
            "sub/..\\../outside/secret.bin", "..\\base-evil\\x.bin", "link_evil", "dir_evil/x.bin", "sub/../dir_evil/x.bin", "dir_evil/../base-evil/x.bin", "hard_out", "hard_in", "link_hard_out", "link_hard_in", "sub/../link_hard_out", "sub", ".", "", "..", "pipe_in", "link_pipe", "sub/../pipe_in", "dev_zero", "data.bin\x00x" if False else "data.bin x"]


class _Timeout(Exception):
    pass


def _alarm(sig, frm):
    raise _Timeout()


def entry_points():
    def numpy(t):
        return bytes(t.numpy().tobytes())

    def array(t):
        return bytes(np.asarray(t).tobytes())

    def tobytes(t):
        return bytes(t.tobytes())

    def tofile_bytesio(t):
        f = io.BytesIO()
        t.tofile(f)
        return f.getvalue()

    def tofile_file(t):
        fn = os.path.join(os.environ["C10_SCRATCH"], "out.bin")
        with open(fn, "wb") as f:
            t.tofile(f)
        with open(fn, "rb") as f:
            return f.read()

    def from_external(t):
        r = ed.convert_tensors_from_external([t])
        return bytes(r[0].tobytes())

    def load_to_model(t):
        v = ir.Value(name="w", const_value=t)
        x = ir.Value(name="x")
        n = ir.Node("", "Identity", [x], name="n")
        g = ir.Graph([x], [n.outputs[0]], nodes=[n], initializers=[v], name="g", opset_imports={"": 20})
        m = ir.Model(g, ir_version=10)
        ed.load_to_model(m)
        return bytes(v.const_value.tobytes())

    def serialize_raw(t):
        tp = ir.serde.serialize_tensor(ir.Tensor(t.numpy(), name="c"))
        return bytes(tp.raw_data)

    return [("numpy", numpy), ("__array__", array), ("tobytes", tobytes), ("tofile(BytesIO)", tofile_bytesio), ("tofile(file)", tofile_file),
            ("convert_tensors_from_external", from_external), ("load_to_model", load_to_model), ("serialize via numpy()", serialize_raw)]


def _work(task):
    kind, arg, k = task
    install()
    root = common.scratch_dir("c10")
    scratch = common.scratch_dir("c10s")
    os.environ["C10_SCRATCH"] = scratch
    cwd = os.getcwd()
    n = accepted = rejected = over_rejected = 0
    found = {}
    signal.signal(signal.SIGALRM, _alarm)
    try:
        make_tree(root)
        os.chdir(root)
        realbase = os.path.realpath(os.path.join(root, "base"))
        eps = entry_points()
        spell = dict(base_spellings(root))
        if kind == "paths":
            bname = arg
            base = spell[bname]
            locs = list(locations(k)) + extra_locations(root)
            for li, loc in enumerate(locs):
                want = reference(base, loc)
                for ename, fn in (eps if li % 1 == 0 else eps[:1]):
                    n += 1
                    t = ir.ExternalTensor(loc, 0, 4, ir.DataType.UINT8, shape=ir.Shape([4]), name="t", base_dir=base)
                    del _OPENS[:]
                    _WATCH[0] = True
                    signal.alarm(3)
                    try:
                        got = fn(t)
                        exc = None
                    except _Timeout:
                        got, exc = None, "TIMEOUT"
                    except BaseException as e:  # noqa: BLE001
                        got, exc = None, type(e).__name__
                    finally:
                        signal.alarm(0)
                        _WATCH[0] = False
                    try:
                        t.release()
                    except Exception:  # noqa: BLE001
                        pass
                    cls = _loc_class(loc)
                    if exc == "TIMEOUT":
                        found.setdefault(f"read_hangs|{ename}|{cls}", {"base": bname, "location": loc, "entry": ename, "clause": "read_hangs", "detail": "3 s"})
                        continue
                    if got is not None:
                        accepted += 1
                        if want is None:
                            found.setdefault(f"read_escaped_or_non_regular_file_accepted|{ename}|{cls}", {"base": bname, "location": loc, "entry": ename, "clause": "read_escaped_or_non_regular_file_accepted", "detail": repr(got[:8])})
                        elif got[:4] != want:
                            found.setdefault(f"wrong_bytes_returned|{ename}|{cls}", {"base": bname, "location": loc, "entry": ename, "clause": "wrong_bytes_returned", "detail": (repr(got[:8]), repr(want))})
                    else:
                        rejected += 1
                        if want is not None:
                            over_rejected += 1
                    # no byte of a file outside the resolved base may be opened, whatever the outcome
                    for op_ in _OPENS:
                        try:
                            rp = os.path.realpath(op_ if isinstance(op_, (str, bytes, os.PathLike)) else str(op_))
                        except Exception:  # noqa: BLE001
                            continue
                        if isinstance(rp, bytes):
                            rp = rp.decode()
                        if rp.startswith(root) and not (rp == realbase or rp.startswith(realbase + os.sep)) and not rp.startswith(scratch):
                            found.setdefault(f"opened_file_outside_base|{ename}|{cls}", {"base": bname, "location": loc, "entry": ename, "clause": "opened_file_outside_base", "detail": rp.replace(root, "<root>")})
        elif kind == "history":
            # read - change the world - read again, on ONE tensor object
            base = os.path.join(root, "base")
            other = os.path.join(root, "other_base")
            os.makedirs(other)
            os.symlink(os.path.join("..", "outside", "secret.bin"), os.path.join(other, "data.bin"))  # same location escapes there
            with open(os.path.join(other, "only_here.bin"), "wb") as f:
                f.write(b"OTHER___")

            def m_base_dir(t):
                t.base_dir = other

            def m_set_base_dir(t):
                v = ir.Value(name="w", const_value=t)
                g = ir.Graph([], [], nodes=[], initializers=[v], name="g")
                ed.set_base_dir(g, other)

            def m_swap_symlink(t):
                p = os.path.join(base, "data.bin")
                os.remove(p)
                os.symlink(os.path.join("..", "outside", "secret.bin"), p)

            def m_hardlink(t):
                os.link(os.path.join(base, "data.bin"), os.path.join(base, "second_link"))

            def m_dir_swap(t):
                shutil.rmtree(os.path.join(base, "sub"))
                os.symlink(os.path.join("..", "outside"), os.path.join(base, "sub"))
                with open(os.path.join(root, "outside", "d2.bin"), "wb") as f:
                    f.write(b"SECRETD2")

            muts = [("base_dir=", m_base_dir, "data.bin"), ("set_base_dir", m_set_base_dir, "data.bin"), ("file->symlink out", m_swap_symlink, "data.bin"),
                    ("file gains hard link", m_hardlink, "data.bin"), ("dir->symlink out", m_dir_swap, "sub/d2.bin")]
            for mname, mut, loc in muts:
                for e1name, e1 in eps[:5]:
                    for e2name, e2 in eps[:7]:
                        for rel in (False, True):
                            shutil.rmtree(root)
                            os.makedirs(root)
                            make_tree(root)
                            os.makedirs(other)
                            os.symlink(os.path.join("..", "outside", "secret.bin"), os.path.join(other, "data.bin"))
                            n += 1
                            t = ir.ExternalTensor(loc, 0, 4, ir.DataType.UINT8, shape=ir.Shape([4]), name="t", base_dir=base)
                            try:
                                first = e1(t)
                            except BaseException as e:  # noqa: BLE001
                                found.setdefault(f"legitimate_read_rejected|{e1name}", {"base": "absolute", "location": loc, "entry": e1name, "clause": "legitimate_read_rejected", "detail": repr(e)[:100]})
                                continue
                            mut(t)
                            if rel:
                                try:
                                    t.release()
                                except BufferError:
                                    continue
                            want = reference(os.fspath(t.base_dir), loc)
                            try:
                                got = e2(t)
                            except BaseException:  # noqa: BLE001
                                got = None
                                rejected += 1
                            first = None
                            if got is not None:
                                accepted += 1
                                fresh = rel or e2name.startswith("tofile")
                                outside_bytes = got[:4] in (b"SECR", b"ROOT", b"EVIL")
                                if outside_bytes or (fresh and want is None):
                                    found.setdefault(f"second_read_escapes_after_world_change|{mname}|{e2name}|release={rel}",
                                                     {"base": mname, "location": loc, "entry": f"{e1name} then {e2name}", "clause": "second_read_escapes_after_world_change", "detail": repr(got[:8])})
                            try:
                                t.release()
                            except Exception:  # noqa: BLE001
                                pass
        elif kind == "sequence":
            # two different tensor objects read one after the other; between the two reads the meaning of the SAME
            # base-directory spelling changes (another working directory, a re-pointed directory symlink)
            def build_worlds():
                shutil.rmtree(root)
                os.makedirs(root)
                for w_ in ("w1", "w2"):
                    os.makedirs(os.path.join(root, w_, "base"))
                    with open(os.path.join(root, w_, "base", "data.bin"), "wb") as f:
                        f.write((w_.upper() + "DATA").encode().ljust(8, b"_"))
                with open(os.path.join(root, "w1", "base", "secret.bin"), "wb") as f:
                    f.write(b"SECRETW1")
                os.symlink(os.path.join("..", "..", "w1", "base", "secret.bin"), os.path.join(root, "w2", "base", "link_w1"))
                os.symlink(os.path.join("w1", "base"), os.path.join(root, "current"))

            def chdir_w2():
                os.chdir(os.path.join(root, "w2"))

            def repoint():
                os.remove(os.path.join(root, "current"))
                os.symlink(os.path.join("w2", "base"), os.path.join(root, "current"))

            scen = [
                ("same_relative_spelling_other_cwd", lambda: os.chdir(os.path.join(root, "w1")), "base", chdir_w2),
                ("same_dot_spelling_other_cwd", lambda: os.chdir(os.path.join(root, "w1", "base")), ".", lambda: os.chdir(os.path.join(root, "w2", "base"))),
                ("directory_symlink_repointed", lambda: os.chdir(root), os.path.join(root, "current"), repoint),
                ("relative_directory_symlink_repointed", lambda: os.chdir(root), "current", repoint),
            ]
            for sname, enter, spelling, change in scen:
                for loc2 in ("link_w1", "../../w1/base/secret.bin", "data.bin"):
                    for e1name, e1 in eps[:5]:
                        for e2name, e2 in eps[:5]:
                            os.chdir(cwd)
                            build_worlds()
                            enter()
                            n += 1
                            t1 = ir.ExternalTensor("data.bin", 0, 4, ir.DataType.UINT8, shape=ir.Shape([4]), name="t1", base_dir=spelling)
                            try:
                                first = e1(t1)
                            except BaseException as e:  # noqa: BLE001
                                found.setdefault(f"legitimate_read_rejected|{e1name}|{sname}", {"base": sname, "location": "data.bin", "entry": e1name, "clause": "legitimate_read_rejected", "detail": repr(e)[:100]})
                                continue
                            if first[:4] != b"W1DA":
                                found.setdefault(f"wrong_bytes_returned|{e1name}|{sname}", {"base": sname, "location": "data.bin", "entry": e1name, "clause": "wrong_bytes_returned", "detail": repr(first[:8])})
                            try:
                                t1.release()
                            except Exception:  # noqa: BLE001
                                pass
                            change()
                            want = reference(spelling, loc2)
                            t2 = ir.ExternalTensor(loc2, 0, 4, ir.DataType.UINT8, shape=ir.Shape([4]), name="t2", base_dir=spelling)
                            try:
                                got = e2(t2)
                            except BaseException:  # noqa: BLE001
                                got = None
                            try:
                                t2.release()
                            except Exception:  # noqa: BLE001
                                pass
                            if got is None:
                                rejected += 1
                                if want is not None:
                                    over_rejected += 1
                                    found.setdefault(f"legitimate_second_read_rejected|{e2name}|{sname}", {"base": sname, "location": loc2, "entry": f"{e1name} then {e2name}", "clause": "legitimate_second_read_rejected", "detail": None})
                            else:
                                accepted += 1
                                if want is None or got[:4] != want:
                                    found.setdefault(f"read_after_base_directory_changed_meaning_escapes|{sname}|{e2name}",
                                                     {"base": sname, "location": loc2, "entry": f"{e1name} then {e2name}", "clause": "read_after_base_directory_changed_meaning_escapes", "detail": (repr(got[:8]), repr(want))})
            os.chdir(root) if os.path.isdir(root) else None
        elif kind == "load":
            # a model loaded from a file gets the model's directory as base directory, whatever the spelling
            def all_ext(model):
                # the harness's own walk over every graph of the model, function bodies included
                out = []

                def walk(gph):
                    if isinstance(gph, ir.Graph):
                        for val in gph.initializers.values():
                            if isinstance(val.const_value, ir.ExternalTensor):
                                out.append(val.const_value)
                    for nd in gph:
                        for a in nd.attributes.values():
                            if a.is_ref():
                                continue
                            if a.type == ir.AttributeType.TENSOR and isinstance(a.value, ir.ExternalTensor):
                                out.append(a.value)
                            elif a.type == ir.AttributeType.GRAPH:
                                walk(a.as_graph())
                            elif a.type == ir.AttributeType.GRAPHS:
                                for sg in a.as_graphs():
                                    walk(sg)

                walk(model.graph)
                for fn_ in model.functions.values():
                    walk(fn_)
                    for a in fn_.attributes.values():
                        if a.is_ref():
                            continue
                        if a.type == ir.AttributeType.TENSOR and isinstance(a.value, ir.ExternalTensor):
                            out.append(a.value)
                        elif a.type == ir.AttributeType.GRAPH and a.value is not None:
                            walk(a.as_graph())
                return out

            def cond(xv, then_g, name):
                eg = ir.Graph([], [], nodes=[], name=f"{name}_else")
                en = ir.Node("", "Identity", [xv], name=f"{name}_en")
                en.outputs[0].name = f"{name}_eo"
                eg.append(en)
                eg.outputs.append(en.outputs[0])
                nd = ir.Node("", "If", [xv], [ir.AttrGraph("then_branch", then_g), ir.AttrGraph("else_branch", eg)], name=name)
                nd.outputs[0].name = f"{name}_y"
                return nd

            placements = ("main", "body_with_node", "empty_body", "deep_empty_body", "node_attribute", "constant_in_body_after_reference_attribute", "constant_in_function_body",
                          "initializer_in_branch_of_function_body", "default_of_function_attribute")
            for loc, place in [(l, pl) for l in ("data.bin", "../outside/secret.bin", "link_out", "hard_out", "link_hard_out", "dir_out/secret.bin", "sub/d2.bin") for pl in placements]:
                x = ir.Value(name="x")
                ext = ir.ExternalTensor(loc, 0, 4, ir.DataType.UINT8, shape=ir.Shape([4]), name="w", base_dir="")
                v = ir.Value(name="w", const_value=ext)
                inits = []
                if place == "main":
                    node = ir.Node("", "Identity", [x], name="n")
                    inits = [v]
                elif place == "body_with_node":
                    bn = ir.Node("", "Identity", [v], name="bn")
                    bn.outputs[0].name = "bo"
                    node = cond(x, ir.Graph([], [bn.outputs[0]], nodes=[bn], initializers=[v], name="then_g"), "n")
                elif place == "empty_body":
                    node = cond(x, ir.Graph([], [v], nodes=[], initializers=[v], name="then_g"), "n")
                elif place == "deep_empty_body":
                    inner = cond(x, ir.Graph([], [v], nodes=[], initializers=[v], name="inner_then"), "inner")
                    node = cond(x, ir.Graph([], [inner.outputs[0]], nodes=[inner], name="then_g"), "n")
                elif place == "constant_in_body_after_reference_attribute":
                    kn = ir.Node("", "Constant", [], [ir.AttrTensor("value", ext)], name="kn")
                    kn.outputs[0].name = "ko"
                    node = cond(x, ir.Graph([], [kn.outputs[0]], nodes=[kn], name="then_g"), "n")
                    # the same node with a reference attribute listed first
                    node = ir.Node("", "If", [x], [ir.RefAttr("note", "outer_note", ir.AttributeType.INT)] + list(node.attributes.values()), name="n2")
                elif place == "default_of_function_attribute":
                    # the external tensor is the DEFAULT VALUE of a function attribute (FunctionProto.attribute_proto)
                    fx = ir.Value(name="fx")
                    fid = ir.Node("", "Identity", [fx], name="fid")
                    fid.outputs[0].name = "fy"
                    fgraph = ir.Graph([fx], [fid.outputs[0]], nodes=[fid], name="F_body", opset_imports={"": 20})
                    funcs = [ir.Function("local", "F", "", graph=fgraph, attributes=[ir.AttrTensor("k", ext)])]
                    node = ir.Node("local", "F", [x], name="n")
                elif place in ("constant_in_function_body", "initializer_in_branch_of_function_body"):
                    fx = ir.Value(name="fx")
                    if place == "constant_in_function_body":
                        kn = ir.Node("", "Constant", [], [ir.AttrTensor("value", ext)], name="fk")
                        kn.outputs[0].name = "fko"
                        fnodes, fout = [kn], kn.outputs[0]
                    else:
                        bn = ir.Node("", "Identity", [v], name="fbn")
                        bn.outputs[0].name = "fbo"
                        fi = cond(fx, ir.Graph([], [bn.outputs[0]], nodes=[bn], initializers=[v], name="f_then"), "fi")
                        fnodes, fout = [fi], fi.outputs[0]
                    fgraph = ir.Graph([fx], [fout], nodes=fnodes, name="F_body", opset_imports={"": 20})
                    funcs = [ir.Function("local", "F", "", graph=fgraph, attributes=[])]
                    node = ir.Node("local", "F", [x], name="n")
                else:
                    node = ir.Node("", "Constant", [], [ir.AttrTensor("value", ext)], name="n")
                node.outputs[0].name = "y"
                g = ir.Graph([x], [node.outputs[0]], nodes=[node], initializers=inits, name="g", opset_imports={"": 20, "local": 1})
                m = ir.Model(g, ir_version=10, functions=funcs if place in ("constant_in_function_body", "initializer_in_branch_of_function_body", "default_of_function_attribute") else [])
                ir.save(m, os.path.join(root, "base", "m.onnx"))
                os.symlink("m.onnx", os.path.join(root, "base", "mlink.onnx")) if not os.path.lexists(os.path.join(root, "base", "mlink.onnx")) else None
                spellings = [("absolute", os.path.join(root, "base", "m.onnx"), root), ("relative", "base/m.onnx", root), ("dot_relative", "./base/m.onnx", root),
                             ("bare_name", "m.onnx", os.path.join(root, "base")), ("dot_bare", "./m.onnx", os.path.join(root, "base")),
                             ("dotdot", "../base/m.onnx", os.path.join(root, "base")), ("via_dir_symlink", "baselink/m.onnx", root),
                             ("model_symlink_same_dir", "mlink.onnx", os.path.join(root, "base")), ("pathlib", __import__("pathlib").Path("m.onnx"), os.path.join(root, "base")),
                             # through a directory symlink and back out: the OS resolves the link before "..", a textual
                             # normalisation would not (inlink -> base/sub, so inlink/.. is base, not the root)
                             ("symlinked_dir_then_dotdot", "inlink/../m.onnx", root), ("abs_symlinked_dir_then_dotdot", os.path.join(root, "inlink", "..", "m.onnx"), root),
                             ("dir_then_dotdot", "base/sub/../m.onnx", root)]
                if not os.path.lexists(os.path.join(root, "inlink")):
                    os.symlink(os.path.join("base", "sub"), os.path.join(root, "inlink"))
                for sname, path, wd in spellings:
                    os.chdir(wd)
                    n += 1
                    try:
                        lm = ir.load(path)
                        lt = all_ext(lm)[0]
                    except Exception as e:  # noqa: BLE001
                        found.setdefault(f"load_raises|{sname}|{place}", {"base": sname, "location": loc, "entry": "ir.load", "clause": "load_raises", "detail": f"{type(e).__name__}: {e}"[:120]})
                        continue
                    bd = os.fspath(lt.base_dir)
                    if not bd or os.path.realpath(bd) != realbase:
                        found.setdefault(f"loaded_model_base_dir_is_not_the_model_directory|{sname}|{place}", {"base": sname, "location": loc, "entry": "ir.load", "clause": "loaded_model_base_dir_is_not_the_model_directory", "detail": repr(bd)})
                    want = reference(realbase, loc)
                    for ename, fn in eps[:5]:
                        t2 = all_ext(ir.load(path))[0]
                        try:
                            got = fn(t2)
                        except BaseException:  # noqa: BLE001
                            got = None
                        try:
                            t2.release()
                        except Exception:  # noqa: BLE001
                            pass
                        if got is not None:
                            accepted += 1
                            if want is None:
                                found.setdefault(f"read_escaped_after_load|{sname}|{ename}|{place}", {"base": sname, "location": loc, "entry": ename, "clause": "read_escaped_after_load", "detail": repr(got[:8])})
                        else:
                            rejected += 1
                os.chdir(root)
    finally:
        os.chdir(cwd)
        shutil.rmtree(root, ignore_errors=True)
        shutil.rmtree(scratch, ignore_errors=True)
    return n, accepted, rejected, over_rejected, found


def _loc_class(loc):
    parts = loc.split("/")
    kinds = []
    for p in parts:
        if p in ("..",):
            kinds.append("..")
        elif p in ("link_out", "dir_out"):
            kinds.append("symlink_out")
        elif p in ("link_in", "dir_in"):
            kinds.append("symlink_in")
        elif p in ("hard_out", "hard_in"):
            kinds.append("hardlink")
        elif p == "base-evil":
            kinds.append("prefix_sibling")
        elif p == "":
            kinds.append("empty")
    if "\\" in loc:
        kinds.append("backslash")
    if loc.startswith("/"):
        kinds.append("absolute")
    return "+".join(sorted(set(kinds))) or "plain"


def main(tier):
    r = common.Run("C10", "exploration", tier)
    k = 3 if tier == "quick" else 4
    root = common.scratch_dir("c10")
    try:
        names = [n for n, _ in base_spellings(root)]
    finally:
        shutil.rmtree(root, ignore_errors=True)
    tasks = [("paths", n, k if n in ("absolute", "relative") or tier == "thorough" else k - 1) for n in names] + [("load", None, 0), ("history", None, 0), ("sequence", None, 0)]
    res = common.pmap(_work, tasks, chunksize=1)
    total = sum(x[0] for x in res)
    acc = sum(x[1] for x in res)
    rej = sum(x[2] for x in res)
    over = sum(x[3] for x in res)
    found = {}
    for task, (*_, f) in zip(tasks, res):
        for key, v in f.items():
            found.setdefault(key, dict(v, task=list(task)))
    for key, f in sorted(found.items()):
        r.violation(key, f"{f['clause']} [base={f['base']} location={f['location']!r} via {f['entry']}]: {f['detail']}", {"engine": "E6", "task": f["task"], "input": {"base": f["base"], "location": f["location"], "entry": f["entry"]}, "oracle": f["clause"], "detail": f["detail"]})
    r.sample({"base": "base/../base", "location": "dir_out/secret.bin", "entry": "tofile(BytesIO)"})
    r.sample({"base": "<ir.load('m.onnx') from inside the directory>", "location": "../outside/secret.bin", "entry": "numpy"})
    r.coverage.update({
        "evaluations": total, "distinct_nontrivial": acc,
        "rule": "a case is (base spelling, location string, entry point); non-trivial = reads that were accepted (each accepted read is compared with the reference decision and the file's bytes)",
        "exhaustive": True, "accepted_reads": acc, "rejected_reads": rej, "rejected_although_reference_allows": over,
        "components": COMPONENTS, "max_components": k, "base_spellings": names, "entry_points": [e for e, _ in entry_points()],
    })
    r.assumptions += ["tmpfs sandbox that nobody else mutates; reference = realpath + stat (regular, st_nlink == 1, inside realpath(base))",
                      "opens are observed through sys.addaudithook('open'); a named pipe and a character device inside the base directory are part of the tree (a read that blocks on the pipe is cut by the 3 s alarm and reported as read_hangs)",
                      "over-rejection (raising although the reference would allow) is counted, not a violation"]
    return r.finish()


def replay(obj):
    """Re-execute, in this process, the enumeration task the finding came from and look for the same finding key."""
    task = obj.get("task")
    if not task:
        return True, "replay file without its task: re-run ./check C10"
    n, acc, rej, over, found = _work(tuple(task))
    hit = found.get(obj["finding_key"])
    return (hit is None), (hit or f"not reproduced among {n} cases")
