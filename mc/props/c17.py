"""C17 — deserialising any proto terminates with an error or a consistent IR.

Deviation-bounded exhaustive mutation: every field-level mutation from a catalogue is applied at
every site of every seed proto (singles; thorough: pairs inside one node/tensor message and every
single-byte substitution of the smallest serialised seeds).
"""

from __future__ import annotations

import builtins
import io
import mmap
import os
import signal
import sys

import onnx
import onnx_ir as ir

from mc import common
from mc import gen_protos as gp
from mc.invariants import check_links

CANARY = "CANARY_c17"
NAME_FIELDS = {"name", "tensor_name", "configuration_id", "ref_attr_name", "domain", "op_type", "overload", "dim_param", "denotation", "key", "value", "doc_string"}


# ---------------------------------------------------------------------------
# file-access interception (Python level; the library is pure Python)

class Watch:
    def __init__(self):
        self.events = []
        self.active = False
        self.strings = set()

    def hit(self, what, path):
        if not self.active:
            return
        try:
            p = os.fspath(path)
        except TypeError:
            return
        if isinstance(p, bytes):
            p = p.decode("utf-8", "replace")
        if CANARY in p or p in self.strings or any(s and p.endswith(os.sep + s) for s in self.strings):
            self.events.append((what, p))
        elif what in ("open", "io.open", "os.open", "audit:open") and not _is_runtime_path(p):
            # any other file the deserialiser opens that is not part of the Python installation / the library
            # source (lazy imports) is a file access too
            self.events.append((what, p))


_RUNTIME_ROOTS = None


def _is_runtime_path(p):
    global _RUNTIME_ROOTS
    if _RUNTIME_ROOTS is None:
        roots = {sys.prefix, sys.base_prefix, sys.exec_prefix, "/usr/lib", "/usr/share", "/usr/local/lib", "/proc/", "/sys/", "/dev/", "/etc/"}
        roots.update(x for x in sys.path if x)
        roots.add(os.path.dirname(os.path.dirname(os.path.abspath(ir.__file__))))
        _RUNTIME_ROOTS = tuple(sorted({os.path.realpath(r) for r in roots} | roots))
    if not isinstance(p, str) or not p:
        return True
    ap = os.path.abspath(p)
    return any(ap == r or ap.startswith(r.rstrip("/") + "/") for r in _RUNTIME_ROOTS)


WATCH = Watch()
_installed = False


def install_watch():
    global _installed
    if _installed:
        return
    _installed = True

    def wrap(mod, name, what):
        orig = getattr(mod, name)

        def f(path, *a, **k):
            WATCH.hit(what, path)
            return orig(path, *a, **k)

        f.__wrapped__ = orig
        setattr(mod, name, f)

    for name in ("stat", "lstat", "access", "readlink", "listdir", "scandir", "open"):
        wrap(os, name, "os." + name)
    wrap(builtins, "open", "open")
    wrap(io, "open", "io.open")

    def audit(event, args):
        if event in ("open", "os.listdir", "os.scandir", "os.chdir") and args:
            WATCH.hit("audit:" + event, args[0])

    sys.addaudithook(audit)


# ---------------------------------------------------------------------------
# mutation catalogue


def _strings_of(m, acc):
    for fd, v in m.ListFields():
        if fd.type == fd.TYPE_MESSAGE:
            for x in (v if fd.is_repeated else [v]):
                _strings_of(x, acc)
        elif fd.type == fd.TYPE_STRING:
            for x in (v if fd.is_repeated else [v]):
                acc.add(x)
        elif fd.type == fd.TYPE_BYTES:
            for x in (v if fd.is_repeated else [v]):
                try:
                    acc.add(x.decode())
                except UnicodeDecodeError:
                    pass


def _external_strings(m, acc):
    """Every string of every external_data entry of every TensorProto anywhere in the message."""
    for fd, v in m.ListFields():
        if fd.type != fd.TYPE_MESSAGE:
            continue
        for x in (v if fd.is_repeated else [v]):
            if isinstance(x, onnx.TensorProto):
                for e in x.external_data:
                    acc.add(e.value)
            _external_strings(x, acc)


def sites(msg, path=()):
    """Enumerate mutation sites of a message: yields (path, kind, extra)."""
    for fd in msg.DESCRIPTOR.fields:
        v = getattr(msg, fd.name)
        p = path + (fd.name,)
        if fd.is_repeated:
            n = len(v)
            for i in range(n):
                yield (p, "delete", i)
                yield (p, "duplicate", i)
                if i + 1 < n:
                    yield (p, "swap", i)
            if n > 1:
                yield (p, "reverse", None)
            if fd.type == fd.TYPE_MESSAGE:
                for i in range(n):
                    yield from sites(v[i], p + (i,))
            elif fd.type == fd.TYPE_STRING:
                for i in range(n):
                    for how in ("empty", "sibling", "dangling"):
                        yield (p + (i,), "string", how)
            elif fd.type in (fd.TYPE_INT64, fd.TYPE_INT32) and n:
                yield (p + (0,), "int", "negative")
                yield (p + (0,), "int", "huge")
            elif fd.type == fd.TYPE_BYTES and n:
                yield (p + (0,), "bytes", "invalid_utf8")
        elif fd.type == fd.TYPE_MESSAGE:
            if msg.HasField(fd.name):
                yield (p, "clear", None)
                yield from sites(v, p)
        elif fd.type == fd.TYPE_STRING:
            if fd.name in NAME_FIELDS or msg.HasField(fd.name) if fd.has_presence else v:
                for how in ("empty", "sibling", "dangling"):
                    yield (p, "string", how)
        elif fd.type == fd.TYPE_ENUM or fd.name in ("data_type", "elem_type", "type"):
            yield (p, "int", "unknown_enum")
            yield (p, "int", "zero")
        elif fd.type in (fd.TYPE_INT64, fd.TYPE_INT32):
            if (msg.HasField(fd.name) if fd.has_presence else v):
                yield (p, "int", "negative")
                yield (p, "int", "huge")
        elif fd.type == fd.TYPE_BYTES:
            if (msg.HasField(fd.name) if fd.has_presence else v):
                yield (p, "bytes", "invalid_utf8")
                yield (p, "bytes", "truncate")
                yield (p, "bytes", "clear")


def _resolve(msg, path):
    """Returns (container, last) so that container[last] / getattr(container, last) is the site."""
    cur = msg
    for step in path[:-1]:
        cur = cur[step] if isinstance(step, int) else getattr(cur, step)
    return cur, path[-1]


def apply(msg, site, sibling_pool):
    path, kind, extra = site
    cont, last = _resolve(msg, path)
    if kind in ("delete", "duplicate", "swap", "reverse"):
        rep = getattr(cont, last)
        if kind == "delete":
            del rep[extra]
        elif kind == "duplicate":
            if hasattr(rep, "add"):
                rep.add().CopyFrom(rep[extra])
            else:
                rep.append(rep[extra])
        elif kind == "swap":
            if hasattr(rep, "add"):
                a, b = type(rep[extra])(), type(rep[extra])()
                a.CopyFrom(rep[extra])
                b.CopyFrom(rep[extra + 1])
                rep[extra].CopyFrom(b)
                rep[extra + 1].CopyFrom(a)
            else:
                rep[extra], rep[extra + 1] = rep[extra + 1], rep[extra]
        else:
            items = list(rep)
            if hasattr(rep, "add"):
                copies = []
                for it in items:
                    c = type(it)()
                    c.CopyFrom(it)
                    copies.append(c)
                del rep[:]
                rep.extend(reversed(copies))
            else:
                del rep[:]
                rep.extend(reversed(items))
        return
    if kind == "clear":
        cont.ClearField(last)
        return

    def setv(val):
        if isinstance(last, int):
            cont[last] = val
        else:
            setattr(cont, last, val)

    cur = cont[last] if isinstance(last, int) else getattr(cont, last)
    if kind == "string":
        if extra == "empty":
            setv("")
        elif extra == "dangling":
            setv("dangling_zzz")
        else:
            cands = [s for s in sibling_pool if s != cur and s]
            setv(cands[(len(cur) + len(path)) % len(cands)] if cands else "x")
    elif kind == "int":
        setv({"negative": -7, "huge": 2**40 if not isinstance(cur, bool) else 1, "unknown_enum": 999, "zero": 0}[extra])
    elif kind == "bytes":
        setv({"invalid_utf8": b"\xff\xfe\xc0" + bytes(cur)[3:], "truncate": bytes(cur)[:-1], "clear": b""}[extra])


def special_mutants(seed):
    """Structural mutations that are not single-field edits."""
    out = []
    m = gp._copy(seed)
    if len(m.graph.node) >= 1:
        n = m.graph.node[0]
        if len(n.output) and len(n.input):
            n.input[0] = n.output[0]  # self cycle
            out.append(("self_cycle", m))
    m = gp._copy(seed)
    if len(m.graph.node) >= 2 and len(m.graph.node[0].input) and len(m.graph.node[1].output):
        m.graph.node[0].input[0] = m.graph.node[1].output[0]  # two-node cycle
        out.append(("two_node_cycle", m))
    for mk in (_tensor_two_payloads, _tensor_wrong_field, _tensor_dims_mismatch, _external_absurd, _graph_attr_self_copy, _missing_types, _duplicate_names_everywhere, _subgraph_io_names_outer, _function_body_shadowing, _names_collide_with_external, _value_info_corners):
        try:
            for label, mm in mk(seed):
                out.append((label, mm))
        except Exception:  # noqa: BLE001  the seed has no such site
            pass
    return out


def _first_init(m):
    return m.graph.initializer[0]


def _tensor_two_payloads(seed):
    m = gp._copy(seed)
    t = _first_init(m)
    t.float_data.extend([1.0, 2.0, 3.0])
    t.int32_data.extend([1])
    yield "tensor_two_payload_fields", m


def _tensor_wrong_field(seed):
    m = gp._copy(seed)
    t = _first_init(m)
    t.ClearField("raw_data")
    t.int64_data.extend([1, 2, 3])
    yield "tensor_wrong_field_for_dtype", m
    m = gp._copy(seed)
    t = _first_init(m)
    t.data_type = onnx.TensorProto.STRING
    yield "tensor_string_with_raw_data", m
    m = gp._copy(seed)
    t = _first_init(m)
    t.data_type = onnx.TensorProto.UNDEFINED
    yield "tensor_undefined_dtype", m


def _tensor_dims_mismatch(seed):
    for dims in ([5], [2, 2], [-1], [2**40], [0]):
        m = gp._copy(seed)
        t = _first_init(m)
        del t.dims[:]
        t.dims.extend(dims)
        yield f"tensor_dims_{dims}", m


def _external_absurd(seed):
    variants = [
        [("location", f"{CANARY}/w.bin"), ("offset", "-5"), ("length", "12")],
        [("location", f"{CANARY}/w.bin"), ("offset", "99999999999999999999"), ("length", "12")],
        [("location", f"{CANARY}/w.bin"), ("offset", "abc"), ("length", "1e3")],
        [("offset", "0"), ("length", "12")],
        [("location", f"../{CANARY}/../../etc/passwd")],
        [("location", f"/abs/{CANARY}/w.bin"), ("length", "-1")],
        [("location", ""), ("location", f"{CANARY}/second")],
        [("location", f"{CANARY}/w.bin"), ("unknown_key", "v"), ("offset", "")],
        [("location", f"{CANARY}/w.bin"), ("offset", "0"), ("length", "12"), ("checksum", "da39a3ee5e6b4b0d3255bfef95601890afd80709")],
        [("location", "c17_existing_file.bin"), ("checksum", "00")],
        [("location", f"{CANARY}/w.bin"), ("checksum", "")],
        [("checksum", "abc"), ("location", f"/abs/{CANARY}/w.bin")],
    ]
    for i, ent in enumerate(variants):
        m = gp._copy(seed)
        t = _first_init(m)
        t.ClearField("raw_data")
        t.data_location = onnx.TensorProto.EXTERNAL
        del t.external_data[:]
        for k, v in ent:
            e = t.external_data.add()
            e.key, e.value = k, v
        yield f"external_absurd_{i}", m
        m2 = gp._copy(m)
        a = onnx.AttributeProto(name="value", type=onnx.AttributeProto.TENSOR)
        a.t.CopyFrom(_first_init(m2))
        m2.graph.node.add().CopyFrom(gp.node("Constant", [], [f"const_ext_{i}"], f"n_const_{i}", attrs=[a]))
        yield f"external_absurd_attr_{i}", m2
        # the same tensor as initializer of every nested body and as a TENSORS element inside every function
        m3 = gp._copy(seed)
        placed = 0
        for g in _all_graphs(m3.graph):
            if g is not m3.graph:
                g.initializer.add().CopyFrom(_first_init(m))
                g.initializer[-1].name = f"nested_ext_{placed}"
                placed += 1
        for f in m3.functions:
            a3 = onnx.AttributeProto(name="values", type=onnx.AttributeProto.TENSORS)
            a3.tensors.add().CopyFrom(_first_init(m))
            f.node.add().CopyFrom(gp.node("MyConsts", [], [f"fn_const_ext_{placed}"], f"fn_const_{placed}", domain="custom.c17", attrs=[a3]))
            placed += 1
        if placed:
            yield f"external_absurd_nested_{i}", m3


def _all_graphs(g):
    yield g
    for n in g.node:
        for a in n.attribute:
            if a.type == onnx.AttributeProto.GRAPH:
                yield from _all_graphs(a.g)
            for sg in a.graphs:
                yield from _all_graphs(sg)


def _graph_attr_self_copy(seed):
    m = gp._copy(seed)
    a = onnx.AttributeProto(name="body", type=onnx.AttributeProto.GRAPH)
    a.g.CopyFrom(m.graph)
    m.graph.node[0].attribute.add().CopyFrom(a)
    yield "graph_attribute_is_copy_of_enclosing_graph", m
    m = gp._copy(seed)
    a = onnx.AttributeProto(name="body", type=onnx.AttributeProto.GRAPHS)
    a.graphs.add().CopyFrom(m.graph)
    a.graphs.add().CopyFrom(m.graph)
    m.graph.node[-1].attribute.add().CopyFrom(a)
    yield "graphs_attribute_two_copies_of_enclosing_graph", m


def _value_info_corners(seed):
    """Per value-info carrier (graph input / output / value_info entry, in every graph and function): the type
    without its elem_type (shape kept), the type cleared, and a fresh name-only or shape-only entry for every
    initializer, node output and graph input that has none."""
    k = 0
    graphs = list(_all_graphs(seed.graph))
    for gi, g in enumerate(graphs):
        for field in ("input", "output", "value_info"):
            for ii, vi in enumerate(getattr(g, field)):
                leaf = vi.type
                if leaf.HasField("tensor_type") and leaf.tensor_type.HasField("shape"):
                    m = gp._copy(seed)
                    getattr(list(_all_graphs(m.graph))[gi], field)[ii].type.tensor_type.ClearField("elem_type")
                    k += 1
                    yield f"{field}_entry_shape_without_elem_type_{k}", m
                if vi.HasField("type"):
                    m = gp._copy(seed)
                    getattr(list(_all_graphs(m.graph))[gi], field)[ii].ClearField("type")
                    k += 1
                    yield f"{field}_entry_type_cleared_{k}", m
        have = {vi.name for vi in g.value_info}
        names = [t.name for t in g.initializer] + [o for n in g.node for o in n.output if o] + [i.name for i in g.input]
        for nm in names:
            if nm in have:
                continue
            for how in ("name_only", "shape_only", "doc_only"):
                m = gp._copy(seed)
                vi = list(_all_graphs(m.graph))[gi].value_info.add()
                vi.name = nm
                if how == "shape_only":
                    vi.type.tensor_type.shape.dim.add().dim_value = 3
                elif how == "doc_only":
                    vi.doc_string = "only a doc string"
                k += 1
                yield f"value_info_{how}_entry_added_{k}", m
    for fi, f in enumerate(seed.functions):
        for ii, vi in enumerate(f.value_info):
            if vi.type.HasField("tensor_type"):
                m = gp._copy(seed)
                m.functions[fi].value_info[ii].type.tensor_type.ClearField("elem_type")
                k += 1
                yield f"function_value_info_without_elem_type_{k}", m


def _missing_types(seed):
    m = gp._copy(seed)
    for vi in list(m.graph.input) + list(m.graph.output) + list(m.graph.value_info):
        vi.ClearField("type")
    yield "all_types_missing", m
    m = gp._copy(seed)
    for vi in list(m.graph.input) + list(m.graph.output):
        if vi.type.HasField("tensor_type"):
            vi.type.tensor_type.ClearField("elem_type")
    yield "elem_types_missing", m


def _subgraph_io_names_outer(seed):
    """A nested body whose output (or a body node output) carries the name of a value of the enclosing graph."""
    outer = [n.output[0] for n in seed.graph.node if len(n.output) and n.output[0]] + [i.name for i in seed.graph.input][:1] + [t.name for t in seed.graph.initializer][:1]
    k = 0
    for ni, n in enumerate(seed.graph.node):
        for ai, a in enumerate(n.attribute):
            if a.type != onnx.AttributeProto.GRAPH or not len(a.g.output):
                continue
            for nm in outer:
                m = gp._copy(seed)
                m.graph.node[ni].attribute[ai].g.output[0].name = nm
                k += 1
                yield f"subgraph_output_named_like_outer_value_{k}", m
                if len(a.g.node):
                    m = gp._copy(seed)
                    m.graph.node[ni].attribute[ai].g.node[-1].output[0] = nm  # shadows the outer value
                    k += 1
                    yield f"subgraph_node_output_shadows_outer_value_{k}", m


def _function_body_shadowing(seed):
    """Inside a function: a node output of a nested body takes the name of a value of the function body
    (consistently: the body's value_info / output entries are renamed with it)."""
    k = 0
    for fi, f in enumerate(seed.functions):
        outer = [o for n in f.node for o in n.output if o] + list(f.input)
        for ni, n in enumerate(f.node):
            for ai, a in enumerate(n.attribute):
                if a.type != onnx.AttributeProto.GRAPH:
                    continue
                for bi, bn in enumerate(a.g.node):
                    for oi, old in enumerate(bn.output):
                        for nm in outer:
                            m = gp._copy(seed)
                            g = m.functions[fi].node[ni].attribute[ai].g
                            g.node[bi].output[oi] = nm
                            for other in g.node:
                                for ii in range(len(other.input)):
                                    if other.input[ii] == old:
                                        other.input[ii] = nm
                            for vi in list(g.value_info) + list(g.output):
                                if vi.name == old:
                                    vi.name = nm
                            k += 1
                            yield f"function_subgraph_value_shadows_function_value_{k}", m


def _names_collide_with_external(seed):
    """Every node output / graph input / graph output of a graph, in turn, takes the name of an external-data
    initializer of that graph (error paths that describe the clashing value must not read it)."""
    k = 0
    for gi, g in enumerate(_all_graphs(seed.graph)):
        ext = [t.name for t in g.initializer if t.data_location == onnx.TensorProto.EXTERNAL]
        for nm in ext:
            for ni, n in enumerate(g.node):
                for oi in range(len(n.output)):
                    m = gp._copy(seed)
                    list(_all_graphs(m.graph))[gi].node[ni].output[oi] = nm
                    k += 1
                    yield f"node_output_named_like_external_initializer_{k}", m
            for field in ("input", "output"):
                for ii in range(len(getattr(g, field))):
                    m = gp._copy(seed)
                    getattr(list(_all_graphs(m.graph))[gi], field)[ii].name = nm
                    k += 1
                    yield f"graph_{field}_named_like_external_initializer_{k}", m
            m = gp._copy(seed)
            g2 = list(_all_graphs(m.graph))[gi]
            dup = g2.initializer.add()
            dup.CopyFrom([t for t in g2.initializer if t.name == nm][0])
            k += 1
            yield f"external_initializer_declared_twice_{k}", m


def _duplicate_names_everywhere(seed):
    m = gp._copy(seed)
    for n in m.graph.node:
        for i in range(len(n.output)):
            n.output[i] = "same"
    yield "all_node_outputs_same_name", m
    m = gp._copy(seed)
    for vi in m.graph.input:
        vi.name = "x"
    for t in m.graph.initializer:
        t.name = "x"
    yield "all_inputs_and_initializers_same_name", m
    m = gp._copy(seed)
    for n in m.graph.node:
        for i in range(len(n.input)):
            n.input[i] = ""
        for i in range(len(n.output)):
            n.output[i] = ""
    yield "all_node_io_empty", m


# ---------------------------------------------------------------------------
# oracle

class _Timeout(BaseException):
    """Raised by the alarm; not an Exception, so that no 'except Exception' of the library can swallow it."""


def _alarm(sig, frm):
    raise _Timeout()


def _tensors_of(model):
    for g in model.graphs():
        for v in g.initializers.values():
            if v.const_value is not None:
                yield v.const_value
        for n in g:
            for a in n.attributes.values():
                if isinstance(a, ir.Attr) and not a.is_ref():
                    if a.type == ir.AttributeType.TENSOR and a.value is not None:
                        yield a.value
                    elif a.type == ir.AttributeType.TENSORS:
                        yield from a.value
    for f in model.functions.values():
        for n in f.all_nodes():
            for a in n.attributes.values():
                if isinstance(a, ir.Attr) and not a.is_ref() and a.type == ir.AttributeType.TENSOR and a.value is not None:
                    yield a.value


def check_proto(p):
    """Returns (outcome, violations). outcome in {'raised', 'ir', 'ir_unserialisable'}."""
    v = []
    WATCH.events = []
    WATCH.strings = set()
    acc = set()
    _external_strings(p, acc)
    WATCH.strings = {s for s in acc if s and not s.lstrip("-").isdigit()}
    signal.signal(signal.SIGALRM, _alarm)
    signal.alarm(5)
    try:
        WATCH.active = True
        try:
            model = ir.from_proto(p)
        except _Timeout:
            return "timeout", [("deserialization_does_not_terminate", "5 s")]
        except Exception:  # noqa: BLE001
            return "raised", ([("file_access_during_deserialization", WATCH.events[:3])] if WATCH.events else [])
        finally:
            WATCH.active = False
        if WATCH.events:
            v.append(("file_access_during_deserialization", WATCH.events[:3]))
        WATCH.events = []
        WATCH.active = True
        try:
            try:
                tensors = list(_tensors_of(model))
            except Exception:  # noqa: BLE001  walking an invalid model may raise; only file access matters here
                tensors = [v.const_value for v in model.graph.initializers.values() if v.const_value is not None]
            for t in tensors:
                try:
                    _ = (t.name, t.dtype, t.shape, t.size)
                except Exception:  # noqa: BLE001  inspecting may raise, it must not touch the file system
                    pass
        finally:
            WATCH.active = False
        if WATCH.events:
            v.append(("file_access_while_inspecting_tensor", WATCH.events[:3]))
        try:
            roots = [model.graph] + list(model.functions.values())
            bad = check_links(roots)
            if bad:
                v.append(("inconsistent_links_after_deserialization", bad[:3]))
            # ownership: a node output is owned by the graph of its node (Value.graph contract); a
            # deserialised graph can only list values of its own scope as outputs
            from mc.snapshot import Registry, closure

            own_graphs = set()

            def down(g):
                if id(g) in own_graphs:
                    return
                own_graphs.add(id(g))
                for nd in g:
                    for a in nd.attributes.values():
                        if isinstance(a, ir.Attr) and not a.is_ref():
                            if a.type == ir.AttributeType.GRAPH and a.value is not None:
                                down(a.value)
                            elif a.type == ir.AttributeType.GRAPHS:
                                for sg in a.value:
                                    down(sg)

            down(model.graph)
            for f in model.functions.values():
                down(f.graph)
            for o in closure(roots, Registry()):
                # the IR is closed: a value used inside the model is produced inside the model or by nothing
                if isinstance(o, ir.Node) and id(o.graph) in own_graphs:
                    for v_in in o.inputs:
                        if v_in is not None and v_in.producer() is not None and id(v_in.producer().graph) not in own_graphs:
                            v.append(("input_produced_by_a_node_outside_the_model", f"{o.name!r} uses {v_in.name!r} produced by {v_in.producer().name!r} (graph {getattr(v_in.producer().graph, 'name', None)!r})"))
                            break
                if isinstance(o, ir.Node) and id(o.graph) in own_graphs:
                    # ... and a value of the model is used by nodes of the model only (a node the deserialiser built and
                    # then dropped must not stay behind as a user)
                    for v_in in list(o.inputs) + list(o.outputs):
                        if v_in is None:
                            continue
                        ghost = [u.node for u in v_in.uses() if id(u.node.graph) not in own_graphs]
                        if ghost:
                            v.append(("value_used_by_a_node_outside_the_model", f"{v_in.name!r} is used by {ghost[0].name!r} (graph {getattr(ghost[0].graph, 'name', None)!r})"))
                            break
                if isinstance(o, ir.Value) and o.producer() is not None and o.producer().graph is not None and o.graph is not o.producer().graph:
                    v.append(("value_owned_by_a_graph_other_than_its_producers", f"{o.name!r}: graph={getattr(o.graph, 'name', None)!r} producer.graph={o.producer().graph.name!r}"))
                    break
        except _Timeout:
            raise
        except Exception as e:  # noqa: BLE001
            v.append(("invariant_evaluation_raises", f"{type(e).__name__}: {e}"[:120]))
        try:
            p1 = ir.to_proto(model)
        except _Timeout:
            return "timeout", [("serialization_does_not_terminate", "5 s")]
        except Exception:  # noqa: BLE001
            return "ir_unserialisable", v
        try:
            p2 = ir.to_proto(ir.from_proto(p1))
            if p1.SerializeToString(deterministic=True) != p2.SerializeToString(deterministic=True):
                d = gp.proto_diff(p1, p2)
                v.append(("reserialised_proto_is_not_a_fixpoint", d[:4] or "byte-level difference only"))
        except _Timeout:
            return "timeout", [("second_round_does_not_terminate", "5 s")]
        except Exception as e:  # noqa: BLE001
            v.append(("own_output_does_not_deserialize", f"{type(e).__name__}: {e}"[:160]))
        return "ir", v
    except _Timeout:
        return "timeout", [("does_not_terminate", "5 s")]
    finally:
        signal.alarm(0)


def seeds(tier):
    out = []
    for label, m in gp.gen_models("quick", pairs=False):
        for t in m.graph.initializer:
            for e in t.external_data:
                if e.key == "location":
                    e.value = f"{CANARY}/{e.value}"
        out.append((label, m))
    out.extend(gp.separator_corner_models())
    return out


def _site_class(site):
    path, kind, extra = site
    return ".".join(str(s) if not isinstance(s, int) else "[]" for s in path) + f":{kind}:{extra if not isinstance(extra, int) else 'i'}"


def _work(task):
    mode, idx, tier = task
    install_watch()
    label, seed = seeds(tier)[idx]
    pool = set()
    _strings_of(seed, pool)
    pool = sorted(pool)
    n = 0
    outcomes = {}
    found = {}

    history = []

    def fingerprint(m):
        signal.signal(signal.SIGALRM, _alarm)
        signal.alarm(5)
        try:
            try:
                mod = ir.from_proto(m)
            except Exception as e:  # noqa: BLE001
                return ("raised", type(e).__name__)
            try:
                return ("ir", ir.to_proto(mod).SerializeToString(deterministic=True))
            except Exception as e:  # noqa: BLE001
                return ("ir_unserialisable", type(e).__name__)
        except _Timeout:
            return ("timeout", None)
        finally:
            signal.alarm(0)

    def run(desc, cls, m):
        nonlocal n
        n += 1
        if mode == "single":
            history.append((desc, cls, m, fingerprint(m)))
        out, v = check_proto(m)
        outcomes[out] = outcomes.get(out, 0) + 1
        for clause, detail in v:
            key = f"{clause}|{cls}"
            if key not in found:
                found[key] = {"seed": label, "mutation": desc, "clause": clause, "detail": detail, "proto_hex": m.SerializeToString().hex()}
        if b"location" in m.SerializeToString():
            # protos that mention external data are deserialised once more with the library's public debug switch on:
            # extra validation must not start looking at the file system either
            import onnx_ir as _oi

            saved = _oi.DEBUG
            _oi.DEBUG = True
            try:
                out2, v2 = check_proto(m)
            finally:
                _oi.DEBUG = saved
            n += 1
            for clause, detail in v2:
                if clause.startswith("file_access"):
                    key = f"{clause}|{cls}|DEBUG=True"
                    if key not in found:
                        found[key] = {"seed": label, "mutation": desc, "clause": clause, "detail": detail, "proto_hex": m.SerializeToString().hex(), "debug": True}

    if mode == "single":
        run("none", "none", seed)
        for site in sites(seed):
            m = gp._copy(seed)
            try:
                apply(m, site, pool)
            except (ValueError, TypeError, IndexError):
                continue  # protobuf itself rejects the value (e.g. invalid UTF-8 in a string field)
            run([list(map(str, site[0])), site[1], site[2]], _site_class(site), m)
        for lab, m in special_mutants(seed):
            run(lab, lab.rstrip("0123456789_"), m)
        # history independence: the same protos deserialised again in the opposite order (so each one now follows
        # different, possibly rejected, predecessors) must give the same outcome and the same serialised result
        for desc, cls, m, fp in reversed(history):
            fp2 = fingerprint(m)
            if fp2 != fp:
                key = f"result_depends_on_earlier_deserializations|{cls}"
                if key not in found:
                    found[key] = {"seed": label, "mutation": desc, "clause": "result_depends_on_earlier_deserializations",
                                  "detail": (fp[0], fp2[0]), "proto_hex": m.SerializeToString().hex()}
    elif mode == "pairs":
        # every pair of mutation sites inside the first two nodes and the first initializer
        ss = [s for s in sites(seed) if s[0][:2] in (("graph", "node"), ("graph", "initializer"), ("graph", "input"), ("graph", "output")) and (len(s[0]) < 3 or s[0][2] in (0, 1))]
        for i in range(len(ss)):
            for j in range(i + 1, len(ss)):
                m = gp._copy(seed)
                try:
                    apply(m, ss[j], pool)  # later site first so that indices of the earlier stay valid
                    apply(m, ss[i], pool)
                except (ValueError, TypeError, IndexError, AttributeError):
                    continue
                run([str(ss[i]), str(ss[j])], _site_class(ss[i]) + " + " + _site_class(ss[j]), m)
    elif mode == "bytes":
        raw = seed.SerializeToString()
        for off in range(len(raw)):
            for sub in (0x00, 0x01, 0x7F, 0x80, 0xFF, (raw[off] + 1) & 0xFF, (raw[off] - 1) & 0xFF):
                if sub == raw[off]:
                    continue
                b = raw[:off] + bytes([sub]) + raw[off + 1:]
                try:
                    m = onnx.ModelProto.FromString(b)
                except Exception:  # noqa: BLE001  not a parsable proto
                    outcomes["unparsable"] = outcomes.get("unparsable", 0) + 1
                    continue
                run(f"byte[{off}]={sub:#x}", "byte_substitution", m)
    return label, mode, n, outcomes, found


def main(tier):
    r = common.Run("C17", "exploration", tier)
    sd = seeds(tier)
    tasks = [("single", i, tier) for i in range(len(sd))]
    if tier == "thorough":
        order = sorted(range(len(sd)), key=lambda i: sd[i][1].ByteSize())
        tasks += [("pairs", i, tier) for i in order[:6]]
        tasks += [("bytes", i, tier) for i in order[:3]]
    else:
        order = sorted(range(len(sd)), key=lambda i: sd[i][1].ByteSize())
        tasks += [("bytes", order[0], tier)]
    res = common.pmap(_work, common.shuffled(tasks, "c17"), chunksize=1)
    total = 0
    outcomes = {}
    found = {}
    for label, mode, n, oc, f in res:
        total += n
        for k, v in oc.items():
            outcomes[k] = outcomes.get(k, 0) + v
        for k, v in f.items():
            found.setdefault(k, v)
    for key, f in sorted(found.items()):
        r.violation(key, f"{f['clause']} [{f['seed']} / {f['mutation']}]: {f['detail']}", {"engine": "E6", "input": {"seed": f["seed"], "mutation": f["mutation"], "proto_hex": f.get("proto_hex")}, "oracle": f["clause"], "detail": f["detail"]})
    r.sample({"seed": "baseline@10", "mutation": [["graph", "node", "0", "input", "1"], "string", "dangling"]})
    r.sample({"seed": "if_with_captures@10", "mutation": "two_node_cycle"})
    r.coverage.update({
        "evaluations": total, "distinct_nontrivial": outcomes.get("ir", 0) + outcomes.get("ir_unserialisable", 0),
        "rule": "a case is one mutated proto; non-trivial = the mutant still deserialises to an IR (so the consistency / fixpoint / file-access oracles actually ran on it)",
        "exhaustive": True, "outcomes": outcomes, "seeds": len(sd),
        "modes": sorted({t[0] for t in tasks}),
    })
    r.assumptions += ["file access is detected at the Python level (builtins.open, io.open, os.open/stat/lstat/access/readlink/listdir/scandir wrappers and the 'open' audit event) for paths that mention the canary directory or any external_data string of the proto",
                      "byte-level mutants that protobuf cannot parse are outside the property (not an ONNX proto) and counted as 'unparsable'"]
    return r.finish()


def replay(obj):
    """Deserialise exactly the recorded mutated proto (no generator, no explorer) and evaluate the oracle."""
    hx = obj.get("input", {}).get("proto_hex")
    if not hx:
        return True, "replay file without the mutated proto: re-run ./check C17"
    install_watch()
    m = onnx.ModelProto.FromString(bytes.fromhex(hx))
    import onnx_ir as _oi

    saved = _oi.DEBUG
    _oi.DEBUG = bool(obj.get("input", {}).get("debug")) or "DEBUG=True" in str(obj.get("finding_key", ""))
    try:
        out, v = check_proto(m)
    finally:
        _oi.DEBUG = saved
    bad = [x for x in v if x[0] == obj["oracle"]]
    return (not bad), {"outcome": out, "violations": [(c, str(d)[:200]) for c, d in v]}
