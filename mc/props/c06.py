"""C06 — a rejected edit leaves every IR object exactly as it was."""
from mc.props import _edit


def main(tier):
    return _edit.run("C06", tier)


replay = _edit.replay
