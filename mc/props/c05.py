"""C05 — every built-in pass, alone or composed, preserves what the model computes."""
from mc import common
from mc.props import _passes


def main(tier):
    r = common.Run("C05", "model_checking", tier)
    tot, found, status = _passes.run_exploration(tier)
    for (prop, key), f in sorted(found.items()):
        if prop != "c05":
            continue
        r.violation(key, f"{f['clause']} [seed={f['seed']} passes={f['path']}]: {f['detail']}",
                    {"engine": "E1-pass", "seed": f["seed"], "seed_hex": f.get("seed_hex"), "history": f["path"], "oracle": f["clause"], "detail": f["detail"]})
    r.sample({"seed": [["If", "add", "id", "x"], ["Sub", "v0", "w1"]], "outputs": ["v1"], "passes": ["Inline", "CSE"]})
    r.sample({"passes": [n for n, _ in _passes.PASSES]})
    r.coverage.update({
        "states": tot["states"], "transitions": tot["transitions"], "traces_validated_against_impl": tot["transitions"],
        "transitions_that_changed_the_model": tot["modifying"], "evaluations": tot["transitions"], "distinct_nontrivial": tot["modifying"],
        "rule": "states = distinct serialised models reached from a checker-valid seed by pass sequences; every transition is judged on 8 input tuples against the seed's outputs with an independent interpreter of the serialised proto",
        "exhaustive": True, "seed_status": status, "bound": [{"seeds": w, "count": c, "pass_sequence_depth": d} for w, c, d in _passes.plan(tier)],
        "passes": len(_passes.PASSES),
    })
    r.assumptions += ["semantic oracle = mc/evalproto.py (validated against onnx.reference and onnxruntime on the seeds during development); inputs range over 4 vectors x {True, False}",
                      "a pass that raises on a checker-valid model is reported as a violation of 'for every valid model'"]
    return r.finish()


def replay(obj):
    import onnx
    from mc import gen_graphs as gg

    if obj.get("seed_hex") and len(obj["history"]) == 3 and str(obj["history"][1]).startswith("edit:"):
        return _passes.replay_edit(obj["seed_hex"], obj["history"], obj["oracle"])
    if obj.get("seed_hex"):
        return _passes.replay_history(obj["seed_hex"], obj["history"], "c05", obj["oracle"])
    seed = obj["seed"]
    if seed and isinstance(seed[0], str) and seed[0].startswith("api:"):
        return _passes.replay_api(seed[0], obj["history"], obj["oracle"])
    forms = tuple(tuple(f) for f in seed[0]) if seed and isinstance(seed[0], list) else None
    if forms is None:
        return True, "special seed: re-run ./check C05"
    proto = gg.make_model(forms, tuple(seed[1]))
    outs = _passes.outputs_on_feeds(proto)
    state = _passes.ser(onnx.ModelProto.FromString(proto.SerializeToString()))
    import onnx_ir as ir

    state = _passes.ser(ir.to_proto(ir.from_proto(proto)))
    bad = []
    for p in obj["history"]:
        r = _passes.apply_pass(state, p, outs, _passes.non_initializer_inputs(proto))
        bad = [c for c in r["c05"] if c[0] == obj["oracle"]] or ([("crash", r["crash"])] if r["crash"] and obj["oracle"].startswith("pass_raises") else [])
        if r["new"] is None:
            break
        state = r["new"]
    return (not bad), bad[:2]
