"""C01 — use-def and ownership links consistent under every edit history."""
from mc.props import _edit


def main(tier):
    return _edit.run("C01", tier)


replay = _edit.replay
