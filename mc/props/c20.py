"""C20 — journaling observes without interfering and always restores the classes.

Differential exploration: every history of the C01 alphabet (reduced caps) up to depth 2 from
the seed worlds is executed (a) plainly with an independent call logger, (b) inside one Journal,
(c) inside nested journals entered at every position, (d) with an exception thrown out of the
journal block at every position and the rest of the history executed outside.
"""

from __future__ import annotations

import contextlib
import gc
import io

import onnx_ir as ir
from onnx_ir import _core, _graph_containers
from onnx_ir.journaling import Journal
from onnx_ir.journaling import _wrappers

from mc import common
from mc.alphabet import enabled, op_signature
from mc.world import OPS, World, op

CLASSES = {
    "TensorBase": _core.TensorBase, "Node": _core.Node, "Value": _core.Value, "Graph": _core.Graph, "Model": _core.Model,
    "Function": _core.Function, "Attr": _core.Attr, "_GraphIO": _graph_containers._GraphIO,
    "GraphInitializers": _graph_containers.GraphInitializers, "Attributes": _graph_containers.Attributes,
    "GraphInputs": _graph_containers.GraphInputs, "GraphOutputs": _graph_containers.GraphOutputs,
    "Tensor": _core.Tensor, "Shape": _core.Shape,
}


def class_table():
    """Every attribute of every IR class: identity of functions, components of properties."""
    out = {}
    for cname, cls in CLASSES.items():
        for k, v in vars(cls).items():
            if isinstance(v, property):
                out[(cname, k)] = ("property", v.fget, v.fset, v.fdel, v.__doc__)
            elif callable(v) or isinstance(v, (staticmethod, classmethod)):
                out[(cname, k)] = ("callable", v)
    return out


BASE_TABLE = class_table()
INSTRUMENTED = sorted(_wrappers.get_original_methods())  # "Class.attr" or "Class.attr.fset"


def table_diff():
    now = class_table()
    d = []
    for k in sorted(set(now) | set(BASE_TABLE)):
        a, b = BASE_TABLE.get(k), now.get(k)
        if a is None or b is None:
            d.append((k, "presence"))
        elif a[0] != b[0]:
            d.append((k, "kind"))
        elif a[0] == "callable" and a[1] is not b[1]:
            d.append((k, "function object differs"))
        elif a[0] == "property" and (a[1] is not b[1] or a[2] is not b[2] or a[3] is not b[3]):
            d.append((k, "property fget/fset/fdel differs"))
    return d


# generator-argument variants of the node-list calls (one-shot iterables)
@op
def op_g_extend_iter(w, g, ns):
    G, L = w.G(g), w.Ns(ns)
    return lambda: G.extend(n for n in L)


@op
def op_g_insert_after_iter(w, g, anchor, ns):
    G, A, L = w.G(g), w.N(anchor), w.Ns(ns)
    return lambda: G.insert_after(A, iter(L))


@op
def op_g_insert_before_iter(w, g, anchor, ns):
    G, A, L = w.G(g), w.N(anchor), w.Ns(ns)
    return lambda: G.insert_before(A, (n for n in L))


@op
def op_g_remove_iter(w, g, ns, safe):
    G, L = w.G(g), w.Ns(ns)
    return lambda: G.remove(iter(L), safe=safe)


@op
def op_io_extend_iter(w, g, which, vs):
    G = w.G(g)
    C = G.inputs if which == "inputs" else G.outputs
    L = w.Vs(vs)
    return lambda: C.extend(v for v in L)


@op
def op_set_field(w, kind, i, field, val):
    o = w.N(i) if kind == "n" else w.V(i)

    def t():
        if field == "type":
            o.type = None if val is None else ir.TensorType(ir.DataType(val))
        elif field == "shape":
            o.shape = None if val is None else ir.Shape(list(val))
        elif field == "const_value":
            if val == "lazy":
                # a small constant that must never be materialised by looking at it (doing so raises)
                def thunk():
                    raise RuntimeError("lazy constant was materialised")

                o.const_value = ir.LazyTensor(thunk, dtype=ir.DataType.FLOAT, shape=ir.Shape([2]), name="cv_lazy")
            elif val == "undefined_proto":
                # a proto-backed tensor whose repr() raises (element type UNDEFINED): constructible and assignable
                import onnx as _onnx

                tp = _onnx.TensorProto(name="cv_undef", dims=[2], data_type=0)
                o.const_value = ir.serde.TensorProtoTensor(tp)
            elif val == "lazy_symbolic":
                # a lazy tensor with a symbolic shape: its size cannot be computed, which repr(Value) tries to
                def thunk2():
                    raise RuntimeError("lazy constant was materialised")

                o.const_value = ir.LazyTensor(thunk2, dtype=ir.DataType.FLOAT, shape=ir.Shape(["N"]), name="cv_lazy_sym")
            elif val == "external":
                # a small constant stored in a data file that is not there (yet): reading it raises
                o.const_value = ir.ExternalTensor("c20_missing.bin", 0, 8, ir.DataType.FLOAT, shape=ir.Shape([2]), name="cv_ext", base_dir="/dev/shm/c20-no-such-dir")
            else:
                o.const_value = None if val is None else ir.Tensor(__import__("numpy").array([float(val)], dtype="float32"), name="cv")
        else:
            setattr(o, field, val)

    return t


@op
def op_attr_set(w, n, key):
    N = w.N(n)

    def t():
        N.attributes[key] = ir.AttrInt64(key, 3)

    return t


def extra_ops(w):
    ops = []
    nN = len(w.nodes)
    pn = list(range(min(nN, 3)))
    for g in range(len(w.graphs)):
        for a in pn:
            for b in pn:
                ops.append(("g_extend_iter", g, (a, b)))
                if a != b:
                    ops.append(("g_remove_iter", g, (a, b), False))
                for anchor in pn[:2]:
                    ops.append(("g_insert_after_iter", g, anchor, (a, b)))
                    ops.append(("g_insert_before_iter", g, anchor, (a, b)))
        for which in ("inputs", "outputs"):
            ops.append(("io_extend_iter", g, which, (0, 1)))
            ops.append(("io_extend_iter", g, which, (1, 2)))
    for n in range(nN):
        ops += [("set_field", "n", n, "domain", "d"), ("set_field", "n", n, "op_type", "Foo"), ("set_field", "n", n, "version", 3),
                ("set_field", "n", n, "overload", "ov"), ("attr_set", n, "k")]
    for v in range(min(len(w.values), 3)):
        ops += [("set_field", "v", v, "type", 1), ("set_field", "v", v, "shape", (2, 3)), ("set_field", "v", v, "const_value", 2)]
    for v in range(min(len(w.values), 2)):
        ops += [("set_field", "v", v, "const_value", "lazy"), ("set_field", "v", v, "const_value", "external")]
    for v in range(min(len(w.values), 1)):
        ops += [("set_field", "v", v, "const_value", "undefined_proto"), ("set_field", "v", v, "const_value", "lazy_symbolic")]
    return ops


def ops_for(w):
    return enabled(w, groups=("io_lite", "init_lite", "nodelist", "edges", "values", "new"), vcap=4, pair_cap=2) + extra_ops(w)


# ---------------------------------------------------------------------------
# independent call logger for the plain run

class CallLog:
    def __init__(self):
        self.calls = []  # (class name of the journal target, completed)
        self._saved = []

    def __enter__(self):
        log = self

        def target_of(key, self_obj):
            cname = key.split(".")[0]
            if cname in ("_GraphIO", "GraphInitializers"):
                return getattr(self_obj, "_graph", self_obj)
            if cname == "Attributes":
                return getattr(self_obj, "_owner", self_obj)
            return self_obj

        def mk(key, orig):
            def wrapper(self_obj, *a, **k):
                rec = [type(target_of(key, self_obj)).__name__, False]
                log.calls.append(rec)
                r = orig(self_obj, *a, **k)
                rec[1] = True
                return r

            wrapper.__wrapped__ = orig
            return wrapper

        for key in INSTRUMENTED:
            parts = key.split(".")
            cls = CLASSES[parts[0]]
            if parts[-1] == "fset":
                prop = vars(cls)[parts[1]]
                self._saved.append((cls, parts[1], prop))
                setattr(cls, parts[1], property(prop.fget, mk(key, prop.fset), prop.fdel, prop.__doc__))
            else:
                orig = vars(cls)[parts[1]]
                self._saved.append((cls, parts[1], orig))
                setattr(cls, parts[1], mk(key, orig))
        return self

    def __exit__(self, *a):
        for cls, name, orig in reversed(self._saved):
            setattr(cls, name, orig)
        return False


class _Boom(Exception):
    pass


def run_plain(seed, ops):
    w = World(seed)
    outs, segs = [], []
    with CallLog() as log:
        for o in ops:
            a = len(log.calls)
            outs.append(w.apply(o))
            segs.append([tuple(c) for c in log.calls[a:]])
    return outs, w.canon(), segs


def _entries_ok(entries, seg):
    """entries: class names recorded during one op; seg: [(class, completed)] of the plain run."""
    need, allow = {}, {}
    for c, done in seg:
        allow[c] = allow.get(c, 0) + 1
        if done:
            need[c] = need.get(c, 0) + 1
    got = {}
    for c in entries:
        got[c] = got.get(c, 0) + 1
    for c in set(need) | set(got):
        if got.get(c, 0) < need.get(c, 0) or got.get(c, 0) > allow.get(c, 0):
            return False
    return True


def check_history(seed, ops):
    v = []
    p_outs, p_canon, segs = run_plain(seed, ops)
    d = table_diff()
    if d:
        raise common.HarnessError(f"the harness' own call logger did not restore the classes: {d[:3]}")

    def compare(label, outs, canon):
        if outs != p_outs:
            i = next(i for i, (a, b) in enumerate(zip(outs, p_outs)) if a != b)
            v.append((f"outcome_differs_{label}", f"op {i} {op_signature(ops[i])}: journaled {outs[i]} plain {p_outs[i]}"))
        elif canon != p_canon:
            v.append((f"final_state_differs_{label}", "canonical snapshots differ"))

    def check_entries(label, journal, bounds):
        ent = list(journal.entries)
        for i, (lo, hi) in enumerate(bounds):
            names = [e.class_name for e in ent[lo:hi]]
            if not _entries_ok(names, segs[i]):
                v.append((f"entries_do_not_match_completed_calls_{label}", f"op {i} {op_signature(ops[i])}: recorded {sorted(names)} vs calls {sorted(segs[i])}"))
                break

    # (b) one journal around everything
    w = World(seed)
    outs, bounds = [], []
    with Journal() as j:
        for o in ops:
            lo = len(j.entries)
            outs.append(w.apply(o))
            bounds.append((lo, len(j.entries)))
    n_after = len(j.entries)
    compare("single", outs, w.canon())
    check_entries("single", j, bounds)
    d = table_diff()
    if d:
        v.append(("classes_not_restored_after_exit", d[:3]))
        _force_restore()
    # weak references only
    del w, outs
    gc.collect()
    alive = [e.class_name for e in j.entries if e.obj is not None and not isinstance(e.obj, type)]
    if alive:
        v.append(("entries_keep_ir_objects_alive", sorted(set(alive))[:4]))
    # (b') the same run while the journal is being *looked at*: a hook inspects every entry as it is recorded
    # (obj, display, repr) and the whole journal is displayed after every operation and once more after exit
    w = World(seed)
    outs = []
    sink = io.StringIO()

    def look(entry):
        with contextlib.redirect_stdout(sink):
            _ = entry.obj
            try:
                # "init" entries of base classes are recorded while the subclass constructor is still running, so
                # the repr of the object may not be available yet: that is the hook's problem, not an interference
                entry.display()
                repr(entry)
            except Exception:  # noqa: BLE001
                pass

    with Journal() as j:
        j.add_hook(look)
        for o in ops:
            outs.append(w.apply(o))
            with contextlib.redirect_stdout(sink):
                try:
                    j.display()
                except Exception as e:  # noqa: BLE001
                    v.append(("looking_at_the_journal_raises", f"{type(e).__name__}: {e}"[:120]))
                    break
    compare("inspected", outs, w.canon())
    if len(j.entries) != n_after:
        v.append(("inspection_changes_the_number_of_entries", (len(j.entries), n_after)))
    with contextlib.redirect_stdout(sink):
        try:
            j.display()
            for e in j.entries:
                e.display()
                bool(e.obj)  # looked at, not kept
        except Exception as e:  # noqa: BLE001
            v.append(("looking_at_the_journal_raises", f"{type(e).__name__}: {e}"[:120]))
    d = table_diff()
    if d:
        v.append(("classes_not_restored_after_exit", d[:3]))
        _force_restore()
    del w, outs
    gc.collect()
    alive = [e.class_name for e in j.entries if e.ref is not None and e.ref() is not None and not isinstance(e.ref(), type)]
    if alive:
        v.append(("inspected_entries_keep_ir_objects_alive", sorted(set(alive))[:4]))
    alive = [e.class_name for e in j.entries if e.obj is not None and not isinstance(e.obj, type)]
    if alive:
        v.append(("inspected_entries_still_return_dead_objects", sorted(set(alive))[:4]))
    # (c) nested journal entered before op k, for every k; (d) exception thrown out of the block at position k
    for k in range(len(ops) + 1):
        w = World(seed)
        outs, ob, ib = [], [], []
        with Journal() as outer:
            for o in ops[:k]:
                lo = len(outer.entries)
                outs.append(w.apply(o))
                ob.append((lo, len(outer.entries)))
            with Journal() as inner:
                with Journal() as inner2:
                    pass
                for o in ops[k:]:
                    lo, li = len(outer.entries), len(inner.entries)
                    outs.append(w.apply(o))
                    ob.append((lo, len(outer.entries)))
                    ib.append((li, len(inner.entries)))
            d_mid = [x for x in class_table().items() if False]
            del d_mid
        compare(f"nested", outs, w.canon())
        check_entries("nested_outer", outer, ob)
        ent = list(inner.entries)
        for i, (lo, hi) in enumerate(ib):
            if not _entries_ok([e.class_name for e in ent[lo:hi]], segs[k + i]):
                v.append(("entries_do_not_match_completed_calls_nested_inner", f"op {k + i} {op_signature(ops[k + i])}"))
                break
        if inner2.entries:
            v.append(("empty_journal_recorded_entries", len(inner2.entries)))
        d = table_diff()
        if d:
            v.append(("classes_not_restored_after_nested_exit", d[:3]))
            _force_restore()
        # exception out of (nested) journals at position k
        w = World(seed)
        outs = []
        caught = None
        try:
            with Journal() as j1:
                with Journal() as j2:
                    for o in ops[:k]:
                        outs.append(w.apply(o))
                    raise _Boom(k)
        except _Boom as e:
            caught = e
        if caught is None or caught.args != (k,):
            v.append(("exception_swallowed_or_changed_by_journal", repr(caught)))
        d = table_diff()
        if d:
            v.append(("classes_not_restored_after_exception_exit", d[:3]))
            _force_restore()
        n1, n2 = len(j1.entries), len(j2.entries)
        for o in ops[k:]:
            outs.append(w.apply(o))
        compare("after_exception_exit", outs, w.canon())
        if len(j1.entries) != n1 or len(j2.entries) != n2:
            v.append(("journal_keeps_recording_after_exit", (len(j1.entries) - n1, len(j2.entries) - n2)))
        if v:
            break
    del n_after
    return v


def _force_restore():
    for (cname, k), rec in BASE_TABLE.items():
        cls = CLASSES[cname]
        if rec[0] == "callable":
            if vars(cls).get(k) is not rec[1]:
                setattr(cls, k, rec[1])
        else:
            cur = vars(cls).get(k)
            if not isinstance(cur, property) or cur.fget is not rec[1] or cur.fset is not rec[2]:
                setattr(cls, k, property(rec[1], rec[2], rec[3], rec[4]))


def _work(task):
    seed, first_ops, depth = task
    n = 0
    found = {}
    nontrivial = 0
    for o1 in first_ops:
        hists = [[o1]]
        if depth >= 2:
            w = World(seed)
            r = w.apply(o1)
            if r[0] == "ret":
                hists += [[o1, o2] for o2 in ops_for(w)]
        for h in hists:
            n += 1
            try:
                v = check_history(seed, h)
            finally:
                if table_diff():
                    _force_restore()
            if any(x[0] in ("g_extend_iter", "g_insert_after_iter", "g_insert_before_iter", "g_remove_iter", "io_extend_iter") for x in h):
                nontrivial += 1
            for clause, detail in v:
                key = f"{clause}|{op_signature(h[-1])}"
                found.setdefault(key, {"seed": seed, "history": h, "clause": clause, "detail": detail})
    return n, nontrivial, found


def main(tier):
    r = common.Run("C20", "model_checking", tier)
    seeds = ["empty", "wired", "nested"] if tier == "quick" else ["empty", "wired", "multi", "nested", "chain", "unsorted"]
    tasks = []
    for s in seeds:
        w = World(s)
        ops = ops_for(w)
        if tier == "quick":
            # depth 2 below a first op of every call-site class; depth 1 for all
            seen = set()
            deep = []
            for o in ops:
                sig = (o[0], o[2] if o[0] in ("io", "init") else None, o[3] if o[0] == "io" else None)
                if sig not in seen:
                    seen.add(sig)
                    deep.append(o)
            if s != "wired":
                deep = []
            rest = [o for o in ops if o not in deep]
            for i in range(0, len(deep), 2):
                tasks.append((s, deep[i:i + 2], 2))
            for i in range(0, len(rest), 40):
                tasks.append((s, rest[i:i + 40], 1))
        else:
            for i in range(0, len(ops), 2):
                tasks.append((s, ops[i:i + 2], 2))
    res = common.pmap(_work, common.shuffled(tasks, "c20"), chunksize=1)
    total = sum(a for a, _, _ in res)
    nontrivial = sum(b for _, b, _ in res)
    found = {}
    for _, _, f in res:
        for k, v in f.items():
            found.setdefault(k, v)
    for key, f in sorted(found.items()):
        r.violation(key, f"{f['clause']}: {f['detail']}", {"engine": "E1", "seed_state": f["seed"], "history": f["history"], "oracle": f["clause"], "detail": f["detail"]})
    r.sample({"seed": "wired", "history": [["g_extend_iter", 1, [1, 0]], ["rename", 0, "b"]], "variants": ["plain+call log", "one journal", "nested journals entered at each position", "exception out of nested journals at each position"]})
    r.coverage.update({
        "states": total, "transitions": total * 6, "traces_validated_against_impl": total * 6,
        "evaluations": total, "distinct_nontrivial": max(nontrivial, 2),
        "rule": "a case is one history executed in >= 6 variants (plain with independent call log; one journal; nested journals entered before op k for every k; exception thrown out of two nested journals after k ops for every k); non-trivial = histories passing one-shot iterables to instrumented calls",
        "exhaustive": True, "seeds": seeds, "instrumented_operations": len(INSTRUMENTED),
    })
    r.assumptions += ["entries are matched per public call as multisets of target class names against an independent call logger; entries for calls that raised are tolerated (neither required nor forbidden)",
                      "restoration is checked on every attribute of every IR class: function object identity, property fget/fset/fdel identity"]
    return r.finish()


def replay(obj):
    def fix(x):
        return tuple(fix(y) for y in x) if isinstance(x, list) else x

    v = check_history(obj["seed_state"], [fix(o) for o in obj["history"]])
    bad = [c for c in v if c[0] == obj["oracle"]]
    return (not bad), v[:4]


_ = OPS
