"""C14 — passes honour their contract: identity, modified flag, fixpoint, no damage."""
from mc import common
from mc.props import _passes


def main(tier):
    r = common.Run("C14", "model_checking", tier)
    tot, found, status = _passes.run_exploration(tier)
    n_fault, f2 = _passes.check_analysis_faults()
    n_comp, f3 = _passes.check_compositions(tier)
    f2 = dict(f2)
    f2.update(f3)
    for (prop, key), f in sorted(found.items()):
        if prop != "c14":
            continue
        r.violation(key, f"{f['clause']} [seed={f['seed']} passes={f['path']}]: {f['detail']}",
                    {"engine": "E1-pass", "seed": f["seed"], "seed_hex": f.get("seed_hex"), "history": f["path"], "oracle": f["clause"], "detail": f["detail"]})
    for key, f in sorted(f2.items()):
        r.violation(key, f"{f['clause']} [seed={f['seed']} pass={f['path']}]: {f['detail']}",
                    {"engine": "E1-pass", "seed": f["seed"], "history": f["path"], "oracle": f["clause"], "detail": f["detail"]})
    r.sample({"seed": [["ConstFs"], ["CallScaleDefault", "v0"]], "outputs": ["v1"], "passes": ["Inline", "LiftConstantsToInitializers(all,0)"]})
    r.sample({"analysis_fault_case": {"pass": "ShapeInference", "variant": "lazy_raises", "fault": "api_raises"}})
    r.coverage.update({
        "states": tot["states"], "transitions": tot["transitions"], "traces_validated_against_impl": tot["transitions"],
        "transitions_that_changed_the_model": tot["modifying"], "evaluations": tot["transitions"] + n_fault + n_comp, "composition_cases": n_comp, "distinct_nontrivial": tot["modifying"],
        "rule": "same transition system as C05; per transition: identity rule, modified=False => byte-identical serialisation, link invariant, ordered graphs stay ordered, still serialisable, convergence of repeated application within |nodes|+|initializers|+8 rounds and no change afterwards; plus analysis passes under injected faults; plus functionalize(p) for every pass and Sequential / PassManager / functionalize(Sequential) over pass pairs compared with member-by-member application on fresh copies",
        "exhaustive": True, "seed_status": status, "analysis_pass_fault_cases": n_fault,
        "bound": [{"seeds": w, "count": c, "pass_sequence_depth": d} for w, c, d in _passes.plan(tier)], "passes": len(_passes.PASSES),
    })
    r.assumptions += ["faults at the ONNX boundary: onnx.checker.check_model / onnx.shape_inference.infer_shapes replaced by a raising callable; a LazyTensor initializer that raises when serialised",
                      "analysis passes must leave the model unchanged when they are validators, when they raise, or when they report modified=False"]
    return r.finish()


def replay(obj):
    if obj.get("seed_hex"):
        return _passes.replay_history(obj["seed_hex"], obj["history"], "c14", obj["oracle"])
    return True, "composition / fault-injection case: re-run ./check C14"
