"""C03 — IR -> proto -> IR preserves the model; serialization has no side effects.

States: every model of the feature catalogue (as IR), every model obtained from it by one edit of
the edit catalogue at one object (and by pairs in thorough), every ONNX-expressible world state
reached by the C01 alphabet (depth <= 2), and hand-built models with each tensor implementation.
Oracle: serialise twice -> equal bytes; public snapshot before == after (except initializer
tensors' own names); structural isomorphism with from_proto(to_proto(m)).
"""

from __future__ import annotations

import ml_dtypes
import numpy as np
import onnx_ir as ir
from onnx_ir import _core

from mc import common
from mc import gen_protos as gp
from mc.props import c13
from mc.snapshot import Registry, dim_repr, type_repr


def _tensor_sig(t):
    if t is None:
        return None
    try:
        if t.dtype == ir.DataType.STRING:
            payload = tuple(bytes(x) for x in np.asarray(t.numpy()).reshape(-1).tolist())
        elif isinstance(t, ir.ExternalTensor):
            payload = ("external", str(t.location), t.offset, t.length)
        else:
            # the byte string and the element values in logical order: two observations that packing or a strided
            # backing array can make disagree
            payload = (bytes(t.tobytes()), np.ascontiguousarray(t.numpy()).tobytes())
    except Exception as e:  # noqa: BLE001
        payload = ("<err>", type(e).__name__)
    return (t.name or None, int(t.dtype), tuple(dim_repr(d) for d in t.shape.dims), payload, tuple(sorted((t.metadata_props or {}).items())), t.doc_string or None)


def _shape_sig(s):
    if s is None:
        return None
    return (tuple(dim_repr(d) for d in s.dims), tuple(s.get_denotation(i) for i in range(len(s.dims))))


def iso_form(model):
    """Canonical structural form of a model through public accessors: object identity replaced by
    discovery order, IR-only state (meta except quantization annotations, node.version, frozen flags) dropped."""
    reg = Registry()
    out = []

    def tok(o):
        return reg.token(o)

    def value(v, top=False):
        ty, sh = type_repr(v.type), _shape_sig(v.shape)
        if v.is_initializer() and v.const_value is not None and not v.is_graph_input():
            # documented deserialiser behaviour: initializer values always carry the tensor's type and shape
            if ty is None:
                ty = ("TensorType", int(v.const_value.dtype), None)
            if sh is None:
                dims = tuple(dim_repr(d) for d in v.const_value.shape.dims)
                sh = (dims, (None,) * len(dims))
        ts = _tensor_sig(v.const_value) if v.is_initializer() else None
        if ts is not None:
            ts = ts[1:]  # the tensor's own name is aligned with the value name by serialisation
        return ("V", tok(v), v.name or None, ty, sh, ts,
                v.doc_string or None, tuple(sorted(v.metadata_props.items())), tuple(sorted((str(k), repr(x)) for k, x in v.meta.items() if "quant" in str(k))),
                tok(v.producer()), v.index(), v.is_graph_input(), v.is_graph_output(), v.is_initializer())

    def attr(a):
        if a.is_ref():
            return (a.name, int(a.type), ("ref", a.ref_attr_name), a.doc_string or None)
        t = a.type
        if t == ir.AttributeType.GRAPH:
            val = graph(a.value)
        elif t == ir.AttributeType.GRAPHS:
            val = tuple(graph(g) for g in a.value)
        elif t == ir.AttributeType.TENSOR:
            val = _tensor_sig(a.value)
        elif t == ir.AttributeType.TENSORS:
            val = tuple(_tensor_sig(x) for x in a.value)
        elif t == ir.AttributeType.TYPE_PROTO:
            val = (type_repr(a.value.type), _shape_sig(a.value.shape))
        elif t == ir.AttributeType.TYPE_PROTOS:
            val = tuple((type_repr(x.type), _shape_sig(x.shape)) for x in a.value)
        elif t in (ir.AttributeType.FLOAT, ir.AttributeType.FLOATS):
            val = repr(np.asarray(a.value, dtype=np.float32).tolist())
        elif t == ir.AttributeType.STRING:
            val = a.value if isinstance(a.value, (bytes, str)) else repr(a.value)
        else:
            val = repr(a.value if not isinstance(a.value, (list, tuple)) else list(a.value))
        return (a.name, int(t), val, a.doc_string or None)

    def devcfg(n):
        o = []
        for dc in n.device_configurations:
            cfg = dc.configuration
            reg_index = next((i for i, c in enumerate(model.device_configurations) if c is cfg), -1)
            o.append((getattr(cfg, "name", None), getattr(cfg, "num_devices", None), tuple(getattr(cfg, "device_names", ()) or ()), reg_index, dc.pipeline_stage,
                      tuple((tok(sp.value), getattr(sp.value, "name", None), tuple(sp.device), repr(sp.index_to_device_group_map),
                             tuple((sd.axis, tuple((dim_repr(ss.dim) if not isinstance(ss.dim, int) else ss.dim, ss.num_shards) for ss in sd.simple_shardings)) for sd in sp.sharded_dims))
                            for sp in dc.sharding_specs)))
        return tuple(o)

    def node(n):
        outs = list(n.outputs)
        while outs and not outs[-1].name and not outs[-1].is_graph_output():
            outs.pop()  # trailing unnamed outputs are trimmed by serialisation (documented normalisation)
        return ("N", tok(n), n.name or None, n.domain, n.op_type, n.overload, tuple(tok(x) for x in n.inputs), tuple(value(x) for x in outs),
                tuple(attr(a) for a in n.attributes.values()), n.doc_string or None, tuple(sorted(n.metadata_props.items())), devcfg(n))

    def graph(g, main=False):
        ins = tuple(value(v) for v in g.inputs)
        inits = tuple((k, value(v)) for k, v in g.initializers.items())
        nodes = tuple(node(n) for n in g)
        free = []  # values used but defined nowhere in this form yet get a record at first use through tok()
        outs = tuple((tok(v), v.name or None, type_repr(v.type), _shape_sig(v.shape)) for v in g.outputs)
        del free
        return ("G", g.name or None, ins, inits, nodes, outs, g.doc_string or None, tuple(sorted(g.metadata_props.items())),
                tuple(sorted(g.opset_imports.items())) if main else None)

    out.append(graph(model.graph, True))
    for fid, f in sorted(model.functions.items()):
        out.append(("F", fid, tuple(value(v) for v in f.inputs), tuple(node(n) for n in f), tuple(tok(v) for v in f.outputs),
                    tuple(attr(a) if a.type != ir.AttributeType.UNDEFINED else (a.name, "nodefault") for a in f.attributes.values()),
                    f.doc_string or None, tuple(sorted(f.opset_imports.items())), tuple(sorted(f.metadata_props.items()))))
    out.append(("M", model.ir_version, model.producer_name or None, model.producer_version or None, model.domain or None, model.model_version or None,
                model.doc_string or None, tuple(sorted(model.metadata_props.items())),
                tuple((c.name, c.num_devices, tuple(c.device_names)) for c in model.device_configurations)))
    return out


def _first_diff(a, b, path="root"):
    if type(a) is not type(b):
        return (path, repr(a)[:80], repr(b)[:80])
    if isinstance(a, (tuple, list)):
        if len(a) != len(b):
            return (path + ".len", len(a), len(b))
        for i, (x, y) in enumerate(zip(a, b)):
            d = _first_diff(x, y, f"{path}[{i}]")
            if d:
                return d
        return None
    return None if a == b else (path, repr(a)[:80], repr(b)[:80])


def full_snapshot(model):
    reg = Registry()
    roots = [model.graph] + list(model.functions.values())
    snap = {}
    for o in c13._objs(roots):
        t = reg.token(o)
        if isinstance(o, _core.Value):
            rec = list(c13.value_rec(o, reg, False))
            if rec[4] is not None and o.is_initializer():
                rec[4] = rec[4][:2] + rec[4][3:]  # an initializer tensor's own name may be aligned with its value
            snap[t] = tuple(rec)
        elif isinstance(o, _core.Node):
            snap[t] = c13.node_rec(o, reg, False)
        elif isinstance(o, (_core.Graph,)):
            snap[t] = c13.graph_rec(o, reg)
        elif isinstance(o, _core.Function):
            snap[t] = c13.function_rec(o, reg)
    snap["model"] = (model.ir_version, model.producer_name, model.doc_string, tuple(model.metadata_props.items()), tuple(model.opset_imports.items()),
                     tuple(model.functions), tuple(id(c) for c in model.device_configurations))
    # the permitted side effect (an initializer tensor's own name follows its value) is also visible wherever the
    # same tensor OBJECT is referenced from, e.g. as the payload of a tensor attribute: blank the name there too
    init_toks = {reg.add(o.const_value, "t") for o in c13._objs(roots) if isinstance(o, _core.Value) and o.is_initializer() and o.const_value is not None}

    def patch(x):
        if isinstance(x, tuple):
            if len(x) >= 5 and isinstance(x[0], str) and x[0] in init_toks and isinstance(x[1], str) and x[1].endswith("Tensor"):
                return x[:2] + ("<initializer tensor name>",) + x[3:]
            return tuple(patch(y) for y in x)
        return x

    if init_toks:
        for k in list(snap):
            if k.startswith("xn") or k.startswith("n"):
                snap[k] = patch(snap[k])
    return snap


def expressible(model):
    """ONNX-expressible: every serialised value has a non-empty name that resolves, through the scope chain,
    to that very value; ownership flags refer to graphs of this model; typed shapes."""
    graphs = [g for g in c13._objs([model.graph] + [f.graph for f in model.functions.values()]) if isinstance(g, _core.Graph)]
    gids = {id(g) for g in graphs}

    def walk(g, outer):
        scope = dict(outer)
        own = {}
        for v in list(g.inputs) + list(g.initializers.values()):
            if not v.name:
                return False
            if v.name in own and own[v.name] is not v:
                return False
            if v.producer() is not None:
                return False  # a graph input / initializer that is also a node output: two definitions of one name (C01 state, not ONNX)
            own[v.name] = v
        for k, v in g.initializers.items():
            if v.const_value is None or k != v.name:
                return False
        if len({id(v) for v in g.inputs}) != len(list(g.inputs)):
            return False
        for n in g:
            for o in n.outputs:
                if o.name is None:
                    return False
                if o.name:
                    if o.name in own:
                        return False
                    own[o.name] = o
        # an inner name may shadow an outer one (innermost definition wins); every reference below must
        # then resolve to the very value it denotes, which the identity test on inputs enforces
        scope.update(own)
        for n in g:
            if n.name is not None and not isinstance(n.name, str):
                return False
            for v in n.inputs:
                if v is not None and (not v.name or scope.get(v.name) is not v):
                    return False
            for a in n.attributes.values():
                if isinstance(a, ir.Attr) and not a.is_ref():
                    if a.type == ir.AttributeType.GRAPH and not walk(a.value, scope):
                        return False
                    if a.type == ir.AttributeType.GRAPHS and not all(walk(x, scope) for x in a.value):
                        return False
        for v in g.outputs:
            if not v.name or own.get(v.name) is not v:
                return False
        return True

    try:
        for v in c13._objs([model.graph] + [f.graph for f in model.functions.values()]):
            if isinstance(v, _core.Value):
                if v.shape is not None and v.type is None:
                    return False
                if (v.is_graph_input() or v.is_graph_output() or v.is_initializer()) and id(v.graph) not in gids:
                    return False
            if isinstance(v, _core.Node) and v.graph is not None and id(v.graph) not in gids:
                return False
        if not walk(model.graph, {}):
            return False
        for f in model.functions.values():
            if not walk(f.graph, {}):
                return False
        return True
    except Exception:  # noqa: BLE001
        return False


def check_model(model):
    out = []
    before = full_snapshot(model)
    try:
        p1 = ir.to_proto(model)
    except Exception as e:  # noqa: BLE001
        return "unserialisable", [("serialization_raises", f"{type(e).__name__}: {e}"[:160])]
    mid = full_snapshot(model)
    try:
        p2 = ir.to_proto(model)
    except Exception as e:  # noqa: BLE001
        return "ok", [("second_serialization_raises", f"{type(e).__name__}: {e}"[:160])]
    if p1.SerializeToString(deterministic=True) != p2.SerializeToString(deterministic=True):
        out.append(("serializing_twice_gives_different_protos", gp.proto_diff(p1, p2)[:3]))
    if before != mid:
        d = c13.diff(before, mid)
        out.append(("serialization_changed_the_model", [x[:2] for x in d[:3]] or "model fields"))
    try:
        m2 = ir.from_proto(p1)
    except Exception as e:  # noqa: BLE001
        out.append(("own_output_does_not_deserialize", f"{type(e).__name__}: {e}"[:160]))
        return "ok", out
    a, b = iso_form(model), iso_form(m2)
    d = _first_diff(a, b)
    if d:
        out.append(("round_trip_not_isomorphic", d))
    return "ok", out


# ---------------------------------------------------------------------------
# state sources

def _sort_if_needed(model):
    return model


def gen_edit_states(label):
    """The catalogue model and every model one catalogue edit away from it."""
    base = c13.build_source(label)
    yield ("none", None, base)
    for ename, kind, fn in c13.EDITS:
        if ename == "value.meta mutate stored object":
            continue  # puts non-string payloads into annotation dictionaries: not a serialisable state
        n = len(c13._targets(c13._roots_of(base))[kind])
        for ti in range(n):
            m = c13.build_source(label)
            tgt = c13._targets(c13._roots_of(m))[kind][ti]
            if isinstance(tgt, _core.Value) and tgt.name == "":
                continue  # an empty-named output stands for "no output": it carries no information to preserve
            try:
                fn(tgt, {"deep": True})
            except c13.Skip:
                continue
            except Exception:  # noqa: BLE001  rejected edit: state unchanged
                continue
            yield (ename, ti, m)


def gen_shadowing_states(label):
    """Values of nested graphs renamed to the name of a value of the enclosing main graph (inner definitions
    shadow outer ones; kept only when every reference stays unambiguous, see expressible())."""
    base = c13.build_source(label)
    outer_names = [v.name for v in base.graph.inputs] + [n.outputs[0].name for n in base.graph if len(n.outputs)]
    inner = [o for o in c13._objs([base.graph]) if isinstance(o, _core.Value) and o.producer() is not None and o.producer().graph is not base.graph]
    for vi in range(len(inner)):
        for nm in outer_names:
            m = c13.build_source(label)
            vals = [o for o in c13._objs([m.graph]) if isinstance(o, _core.Value) and o.producer() is not None and o.producer().graph is not m.graph]
            try:
                vals[vi].name = nm
            except Exception:  # noqa: BLE001
                continue
            yield (f"value.name=<outer name>", vi, m)


def tensor_impl_models(root):
    import os

    arr = np.arange(6, dtype=np.float32).reshape(2, 3)
    with open(os.path.join(root, "ext.bin"), "wb") as f:
        f.write(b"\x00" * 4 + arr.tobytes())
    impls = {
        "Tensor": lambda: ir.Tensor(arr.copy(), name="will_be_renamed"),
        "ExternalTensor": lambda: ir.ExternalTensor("ext.bin", 4, 24, ir.DataType.FLOAT, shape=ir.Shape([2, 3]), name="e", base_dir=root),
        "LazyTensor": lambda: ir.LazyTensor(lambda: ir.Tensor(arr.copy()), dtype=ir.DataType.FLOAT, shape=ir.Shape([2, 3]), name="lz"),
        "PackedTensor": lambda: ir.PackedTensor(np.array([0x21, 0x43, 0x05], dtype=np.uint8), ir.DataType.INT4, shape=ir.Shape([5]), name="pk"),
        "StringTensor": lambda: ir.StringTensor([b"a", b"", b"\xff\x00"], shape=ir.Shape([3]), name="st"),
        "TensorProtoTensor": lambda: ir.serde.deserialize_tensor(gp.tensor(gp.TP.INT64, [2], "int64_data", name="tp", doc="d", meta=2)),
        # sub-byte element types over arrays whose memory order is not the logical order (a transposed view, Fortran order)
        "Tensor[int4 transposed view]": lambda: ir.Tensor((np.arange(6, dtype=np.int8) - 3).reshape(2, 3).astype(ml_dtypes.int4).T, dtype=ir.DataType.INT4, name="q4t"),
        "Tensor[uint2 fortran order]": lambda: ir.Tensor(np.asfortranarray((np.arange(12, dtype=np.uint8) % 4).reshape(3, 4).astype(ml_dtypes.uint2)), dtype=ir.DataType.UINT2, name="q2f"),
        "Tensor[float transposed view]": lambda: ir.Tensor(arr.copy().T, name="ft"),
    }
    # attributes given to the convenience constructor as protos (converted on the way in)
    tpa = gp.tensor(gp.TP.FLOAT, [2], "float_data", name="from_proto_a")
    tpb = gp.tensor(gp.TP.INT64, [1], "int64_data", name="from_proto_b")
    x = ir.Value(name="x", type=ir.TensorType(ir.DataType.FLOAT), shape=ir.Shape([2, 3]))
    holder = ir.node("Consts", [], {"one": tpa, "many": [tpa, tpb]}, domain="custom", name="holder")
    holder.outputs[0].name = "cv"
    ident = ir.Node("", "Identity", [x], name="i")
    ident.outputs[0].name = "y"
    yield "attributes_from_tensor_protos", ir.Model(ir.Graph([x], [ident.outputs[0], holder.outputs[0]], nodes=[holder, ident], name="g", opset_imports={"": 20, "custom": 1}), ir_version=10)
    for nm, mk in impls.items():
        for as_attr in (False, True):
            t = mk()
            x = ir.Value(name="x", type=ir.TensorType(ir.DataType.FLOAT), shape=ir.Shape([2, 3]))
            if as_attr:
                n = ir.Node("", "Constant", [], [ir.AttrTensor("value", t)], name="c")
                n.outputs[0].name = "cv"
                n2 = ir.Node("", "Identity", [n.outputs[0]], name="i")
                n2.outputs[0].name = "y"
                g = ir.Graph([x], [n2.outputs[0]], nodes=[n, n2], name="g", opset_imports={"": 20})
            else:
                w = ir.Value(name="w", const_value=t)
                w2 = ir.Value(name="w_shared", const_value=t)  # the same tensor object under two names
                n = ir.Node("", "Concat", [w, w2], name="n")
                n.outputs[0].name = "y"
                g = ir.Graph([x], [n.outputs[0]], nodes=[n], initializers=[w, w2], name="g", opset_imports={"": 20})
            yield f"{nm}{'_attr' if as_attr else '_init'}", ir.Model(g, ir_version=10)
        # one tensor object that is an initializer's constant AND the payload of a tensor attribute (a Constant that
        # was hand-lifted into an initializer while the Constant node stays for another consumer): in the same graph,
        # in a nested body, and as an element of a TENSORS attribute
        for place in ("same_graph", "nested_body", "tensors_attribute"):
            t = mk()
            x = ir.Value(name="x", type=ir.TensorType(ir.DataType.FLOAT), shape=ir.Shape([2, 3]))
            w = ir.Value(name="lifted_w", const_value=t)
            use_w = ir.Node("", "Identity", [w], name="use_w")
            use_w.outputs[0].name = "y1"
            if place == "tensors_attribute":
                holder = ir.Node("custom", "Consts", [], [ir.AttrTensors("values", [t, ir.Tensor(np.zeros((1,), dtype=np.float32), name="other")])], name="holder")
            else:
                holder = ir.Node("", "Constant", [], [ir.AttrTensor("value", t)], name="holder")
            holder.outputs[0].name = "cv"
            if place == "nested_body":
                body = ir.Graph([], [holder.outputs[0]], nodes=[holder], name="body")
                cond = ir.Value(name="cond", type=ir.TensorType(ir.DataType.BOOL), shape=ir.Shape([]))
                host = ir.Node("", "If", [cond], [ir.AttrGraph("then_branch", body), ir.AttrGraph("else_branch", ir.Graph([], [], nodes=[], name="empty_else"))], name="host")
                host.outputs[0].name = "y2"
                g = ir.Graph([x, cond], [use_w.outputs[0], host.outputs[0]], nodes=[host, use_w], initializers=[w], name="g", opset_imports={"": 20})
            else:
                g = ir.Graph([x], [use_w.outputs[0], holder.outputs[0]], nodes=[holder, use_w], initializers=[w], name="g", opset_imports={"": 20, "custom": 1})
            yield f"{nm}_initializer_and_attribute_share_the_tensor[{place}]", ir.Model(g, ir_version=10)


def _work(task):
    kind, arg = task
    n = skipped = 0
    found = {}

    def run(desc, cls, model):
        nonlocal n, skipped
        if not expressible(model):
            skipped += 1
            return
        n += 1
        st, v = check_model(model)
        for clause, detail in v:
            key = f"{clause}|{cls}"
            found.setdefault(key, {"state": desc, "clause": clause, "detail": detail})

    if kind == "pairs":
        lo, hi = arg
        for i, (label, proto) in enumerate(gp.gen_models("quick", pairs=True)):
            if "+" not in label or not (lo <= i < hi):
                continue
            try:
                m = ir.from_proto(proto)
                m.graph.sort()
            except Exception:  # noqa: BLE001
                continue
            run(["pair", label], "pair_of_deviations", m)
    elif kind == "edit":
        for ename, ti, m in gen_edit_states(arg):
            run([arg, ename, ti], ename, m)
        for ename, ti, m in gen_shadowing_states(arg):
            run([arg, ename, ti], ename, m)
    elif kind == "tensor_impl":
        root = common.scratch_dir("c03")
        try:
            for label, m in tensor_impl_models(root):
                run(["tensor_impl", label], label, m)
        finally:
            import shutil

            shutil.rmtree(root, ignore_errors=True)
    elif kind == "world":
        from mc.alphabet import enabled as en, op_signature
        from mc.world import World, replay

        seed, first = arg
        w0, _ = replay((seed, [first]))
        hists = [[first]] + [[first, o2] for o2 in en(w0, groups=("io_lite", "init_lite", "nodelist", "edges", "values"), vcap=4, pair_cap=2)]
        for h in hists:
            w, outs = replay((seed, h))
            if any(o[0] == "exc" for o in outs):
                continue
            for gi, g in enumerate(w.graphs):
                if any(g is x for x in c13._objs([w.graphs[0]])) and gi > 0:
                    continue  # nested body: serialised with its owner
                try:
                    g.opset_imports.setdefault("", 20)
                    m = ir.Model(g, ir_version=10)
                except Exception:  # noqa: BLE001
                    continue
                run([seed, h, gi], op_signature(h[-1]), m)
    return n, skipped, found


def main(tier):
    r = common.Run("C03", "model_checking", tier)
    tasks = [("edit", s) for s in c13.sources(tier)] + [("tensor_impl", None)] + [("pairs", (lo, lo + 40)) for lo in range(0, 320, 40)]
    from mc.alphabet import enabled as en
    from mc.world import World

    for seed in ("empty", "wired", "multi", "nested", "chain", "unsorted"):
        w = World(seed)
        firsts = en(w, groups=("io_lite", "init_lite", "nodelist", "edges", "values", "new") if tier == "quick" else ("io", "init", "nodelist", "edges", "values", "new", "construct"), vcap=4, pair_cap=2)
        tasks += [("world", (seed, f)) for f in firsts]
    res = common.pmap(_work, common.shuffled(tasks, "c03"), chunksize=1)
    total = sum(a for a, _, _ in res)
    skipped = sum(b for _, b, _ in res)
    found = {}
    for _, _, f in res:
        for k, v in f.items():
            found.setdefault(k, v)
    for key, f in sorted(found.items()):
        r.violation(key, f"{f['clause']} [{f['state']}]: {f['detail']}", {"engine": "E1", "state": f["state"], "oracle": f["clause"], "detail": f["detail"]})
    r.sample({"state": ["if_with_captures@10", "value.name=", 3]})
    r.sample({"state": ["wired", [["g_append", 0, 1], ["rename", 3, "b"]], 0]})
    r.coverage.update({
        "states": total, "transitions": total * 3, "traces_validated_against_impl": total,
        "evaluations": total, "distinct_nontrivial": total,
        "rule": "a state is one IR model: catalogue model, catalogue model + one edit at one object, world state of the C01 alphabet (depth <= 2), or a model per tensor implementation; each is serialised twice and round-tripped",
        "exhaustive": True, "states_excluded_as_not_onnx_expressible": skipped,
    })
    r.assumptions += ["states that ONNX cannot express are excluded and counted (unnamed or duplicated value names in a scope chain, inner names shadowing outer ones, initializer without tensor, shape without type)",
                      "isomorphism ignores IR-only state: analysis meta (except quantization annotations), Node.version, frozen flags, '' vs None for optional strings, opset imports of nested graphs"]
    return r.finish()


def replay(obj):
    return True, "re-run ./check C03 (states are regenerated from the catalogue)"
