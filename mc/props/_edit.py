"""Shared exploration for C01 (link invariants) and C06 (rejected edits are no-ops)."""

from __future__ import annotations

from mc import common
from mc.alphabet import GROUPS, op_signature
from mc.explore import bfs, transition
from mc.snapshot import diff_kinds

SEEDS = ["empty", "wired", "multi", "nested", "chain", "unsorted"]

ALL = tuple(GROUPS)
COLL = ("io", "init", "values")
LIST = ("nodelist", "edges", "new")

PLANS = {
    # (seeds, plan per depth, caps)
    "quick": [
        (SEEDS, [ALL, ALL], {}),
        (["empty", "wired"], [("io_lite", "init_lite")] * 4, {"vcap": 3}),
        (SEEDS, [("construct",), ("construct", "io_lite", "init_lite", "nodelist")], {"vcap": 4}),
        (["dupnames"], [("values",), ("values",), ("nodelist", "edges")], {"vcap": 4}),
    ],
    "thorough": [
        (["dupnames"], [("values",), ("values",), ("values", "nodelist", "edges"), ("nodelist", "edges")], {"vcap": 4, "pair_cap": 3}),
        (SEEDS, [ALL, ALL], {}),
        (SEEDS, [COLL, COLL, COLL], {"vcap": 6, "pair_cap": 3}),
        (SEEDS, [LIST, LIST, LIST], {"vcap": 6, "pair_cap": 3}),
        (["wired", "multi"], [("io", "init"), ("io", "init"), ("io", "init"), ("io", "init")], {"vcap": 4, "pair_cap": 2}),
        (SEEDS, [("construct",), ("construct",) + ALL], {"vcap": 5}),
        (SEEDS, [ALL, ("construct",)], {"vcap": 5}),
    ],
}


def _tolist(x):
    if isinstance(x, tuple):
        return [_tolist(y) for y in x]
    if isinstance(x, list):
        return [_tolist(y) for y in x]
    return x


def _totuple(x):
    if isinstance(x, list):
        return tuple(_totuple(y) for y in x)
    return x


def annotated_edit_scenarios(only=None):
    """Edits of a node whose inputs and output all carry sharding annotations, with every pattern of equal / distinct
    value names among them: an edit that raises must leave everything as it was (and an edit that is valid on the
    un-annotated node is valid here too). Yields (key, text, detail) per violation and (None, n_cases, None) at the end."""
    import itertools

    import onnx_ir as ir

    from mc.snapshot import Registry, diff, snapshot

    edits = ["replace_input_0", "replace_input_1", "replace_input_0_none", "resize_inputs_1", "resize_outputs_2", "rauw_x", "rauw_w", "remove_safe_consumer_first"]
    n = 0
    for names in itertools.product(("p", "q"), repeat=3):
        for configs in (1, 2):
            for ei, edit in enumerate(edits):
                if only is not None and only != [list(names), configs, edit]:
                    continue
                n += 1
                F = ir.TensorType(ir.DataType.FLOAT)
                x = ir.Value(name="x", type=F, shape=ir.Shape([2, 2]))
                w = ir.Value(name="w", type=F, shape=ir.Shape([2, 2]))
                spare = ir.Value(name="spare", type=F, shape=ir.Shape([2, 2]))
                n0 = ir.Node("", "Add", [x, w], name="n0")
                a = n0.outputs[0]
                a.name, a.type, a.shape = "a", F, ir.Shape([2, 2])
                n1 = ir.Node("", "Relu", [a], name="n1")
                n1.outputs[0].name = "b"
                g = ir.Graph([x, w, spare], [n1.outputs[0]], nodes=[n0, n1], name="g", opset_imports={"": 21})
                model = ir.Model(g, ir_version=11)
                cfgs = [model.add_device_configuration(f"cfg{k}", num_devices=2) for k in range(configs)]
                for c in cfgs:
                    for v in (x, w, a):
                        n0.shard(v, configuration=c, axis=0, num_shards=2)
                x.name, w.name, a.name = names  # names are the user's business: equal names are legal in the IR
                if edit == "remove_safe_consumer_first":
                    g.outputs.clear()
                    g.remove(n1, safe=True)
                reg = Registry()
                roots = [model.graph, spare, n1]
                before = snapshot(roots, reg)
                try:
                    if edit == "replace_input_0":
                        n0.replace_input_with(0, spare)
                    elif edit == "replace_input_1":
                        n0.replace_input_with(1, spare)
                    elif edit == "replace_input_0_none":
                        n0.replace_input_with(0, None)
                    elif edit == "resize_inputs_1":
                        n0.resize_inputs(1)
                    elif edit == "resize_outputs_2":
                        n0.resize_outputs(2)
                    elif edit == "rauw_x":
                        x.replace_all_uses_with(spare)
                    elif edit == "rauw_w":
                        w.replace_all_uses_with(spare)
                    else:
                        g.remove(n0, safe=True)
                    exc = None
                except Exception as e:  # noqa: BLE001
                    exc = e
                if exc is None:
                    continue
                detail = [list(names), configs, edit]
                after = snapshot(roots, reg)
                d = diff(before, {k: v for k, v in after.items() if k in before})
                if d:
                    yield (f"annotated_node|{edit}|{type(exc).__name__}|state_changed", f"{edit} on a node whose sharded values are named {names} raised {type(exc).__name__}: {str(exc)[:80]} and changed {[x_[:2] for x_ in d[:3]]}", detail)
    yield (None, n, None)


def run(pid: str, tier: str) -> int:
    which = "c01" if pid == "C01" else "c06"
    plans = PLANS[tier]
    if tier == "quick" and which == "c01":
        # the 'unsorted' seed exists for the rejected-sort case of C06; C01's quick tier skips it
        plans = [([s for s in seeds if s != "unsorted"], plan, caps) for seeds, plan, caps in plans]
    r = common.Run(pid, "model_checking", tier)
    known_keys = {f["key"] for f in common.load_findings() if f["property"] in ("C01", "C06") and f["status"] == "known"}
    stopped_early = False
    # safety net: a defect can make every transition slower and slower (state kept alive across worlds); the quick
    # tier gives up after 15 minutes, the thorough tier after 3 hours, and reports what it has - never as exhaustive
    import time

    deadline = time.time() + (900 if tier == "quick" else 3 * 3600)
    timed_out = False
    total_states = total_trans = total_raise = 0
    per_op: dict[str, list[int]] = {}
    plans_done = []
    raising_sigs = set()
    nontrivial = 0
    for seeds, plan, caps in plans:
        def lvl(depth, res, nfront, plan=plan):
            common.eprint(f"  [{pid}] plan={['+'.join(g) if g != ALL else 'ALL' for g in plan]} depth={depth} states={res.states} transitions={res.transitions} frontier={nfront}")

        res = bfs(seeds, plan, caps, sample_rng=r.rng, on_level=lvl, is_known=lambda k: k in known_keys, deadline=deadline,
                  # a state in which the property under check is already broken is not expanded; a state that only breaks
                  # the sibling property is (a rejected call that leaves hidden damage shows up in C01 a few calls later)
                  # (the C06 run keeps not expanding states in which C01 is already broken: everything a later call
                  # does to such a state is a consequence of that breakage)
                  prune_on=("c01",) if which == "c01" else ("c01", "c06"))
        total_states += res.states
        total_trans += res.transitions
        total_raise += res.raising
        raising_sigs |= res.raising_sigs
        for k, (a, b) in res.per_op.items():
            p = per_op.setdefault(k, [0, 0])
            p[0] += a
            p[1] += b
        plans_done.append({"seeds": seeds, "groups_per_depth": [list(g) for g in plan], "caps": caps,
                           "states": res.states, "transitions": res.transitions, "raising": res.raising,
                           "depth_completed": res.max_depth, "pruned_violating_states": res.pruned,
                           "frontier_exhausted": res.frontier_exhausted, "stopped_after_violation": res.stopped_after_violation})
        stopped_early = stopped_early or res.stopped_after_violation or res.timed_out
        timed_out = timed_out or res.timed_out
        found = res.c01 if which == "c01" else res.c06
        counts = res.c01_count if which == "c01" else res.c06_count
        for key, (hist, out, detail) in found.items():
            # determinism guard: re-execute twice from scratch
            seed, ops = hist
            prefix, op = (seed, list(ops[:-1])), ops[-1]
            again = [transition(prefix, op) for _ in range(4)]
            sig = [(a["out"], a[which]) for a in again]
            # The harness is single-threaded with a fixed hash seed; the only remaining source of
            # run-to-run variation is the library ordering objects by id().  A violation observed in the
            # worker is real either way; one that does not reproduce identically is reported as
            # address-dependent instead of being dropped.
            unstable = any(x != sig[0] for x in sig) or not again[0][which]
            r.violation(
                key,
                f"{op_signature(op)} -> {out}: " + "; ".join(str(d) for d in detail[:3]),
                {"engine": "E1", "seed_state": seed, "history": _tolist(ops), "outcome": out,
                 "oracle": which, "detail": detail, "cases": counts[key], "address_dependent": unstable},
                n=counts[key],
            )
        for s in res.sample_histories:
            r.sample(s)
        nontrivial += res.raising if which == "c06" else res.transitions - res.raising
        if stopped_early:
            break
    ann_cases = 0
    if which == "c06":
        for key, what, detail in annotated_edit_scenarios():
            if key is None:
                ann_cases += what
                continue
            r.violation(key, what, {"engine": "E1-scenario", "oracle": "c06", "annotated_edit": detail, "detail": what})
    r.coverage.update({
        "annotated_node_edit_cases": ann_cases,
        "states": total_states,
        "transitions": total_trans,
        "traces_validated_against_impl": total_trans,
        "raising_transitions": total_raise,
        "distinct_raising_call_sites": len(raising_sigs),
        "evaluations": total_trans,
        "distinct_nontrivial": len(raising_sigs) if which == "c06" else total_states,
        "rule": ("C06: a case is a raising transition; distinct = distinct (call-site class, exception type)" if which == "c06"
                 else "C01: a case is a transition; distinct = distinct canonical successor states"),
        "exhaustive": not stopped_early,
        "bound": plans_done,
        "per_op_returned_raised": {k: v for k, v in sorted(per_op.items())},
    })
    r.assumptions += [
        "all histories over the listed alphabet up to the listed depth from the listed seed states; nothing sampled",
        "states de-duplicated on the canonical public snapshot plus name-authority and ref-counter state",
        "states in which the link invariant is already broken are not expanded further",
        "worlds: <= 2 graphs (second one either stand-alone or the body of an If-like node), <= 4 nodes, <= 8 values",
    ]
    if not r.samples:
        r.sample({"history": [seeds[0], []]})
    r.coverage["timed_out"] = timed_out
    rc = r.finish()
    if timed_out and rc == 0:
        # nothing found, but the exploration was not completed: neither a pass nor a violation
        raise common.HarnessError(f"{pid}: exploration exceeded its wall-clock budget before completing the stated bound")
    return rc


def replay(obj):
    if obj.get("annotated_edit"):
        hits = [x for x in annotated_edit_scenarios(only=obj["annotated_edit"]) if x[0] is not None]
        return (not hits), [x[1] for x in hits]
    from mc.explore import transition as tr

    which = obj["oracle"]
    ops = [_totuple(o) for o in obj["history"]]
    rec = tr((obj["seed_state"], ops[:-1]), ops[-1])
    bad = rec[which]
    return (not bad), {"outcome": rec["out"], which: bad[:6], "kinds": diff_kinds(bad) if which == "c06" else None}
