"""C09 — concurrent external-data writing is schedule-independent, bounded and live.

Every schedule with <= k preemptions of the real `_write_external_tensors` /
`_ExternalDataWriter` / `_ByteBudget` code is executed under the cooperative scheduler
(mc/sched.py) by rebinding `external_data.threading` and `external_data.concurrent`.
"""

from __future__ import annotations

import os
import shutil

import onnx_ir as ir
from onnx_ir import external_data as ed

from mc import common, sched

BUDGET = 8


class Monitor:
    def __init__(self):
        self.live = 0
        self.max_live = 0
        self.depth: dict[int, int] = {}
        self.max_depth = 0
        self.cb_depth = 0
        self.max_cb_depth = 0
        self.cb_calls: list = []
        self.cb_threads: set = set()
        self.budgets: list = []


class HTensor:
    """A harness tensor: TensorProtocol surface used by the writer, with scheduling points inside."""

    def __init__(self, s, mon, name, nbytes, fill, fail=None):
        self.s, self.mon = s, mon
        self.name = name
        self.nbytes = nbytes
        self.size = nbytes
        self.dtype = ir.DataType.UINT8
        self.shape = ir.Shape([nbytes])
        self._data = bytes([fill]) * nbytes
        self.fail = fail
        self.doc_string = None
        self.metadata_props = {}
        self.meta = {}

    def tobytes(self):
        return self._data

    def numpy(self):
        import numpy as np

        return np.frombuffer(self._data, dtype=np.uint8)

    def tofile(self, file):
        m = self.mon
        m.live += self.nbytes
        m.max_live = max(m.max_live, m.live)
        d = m.depth.get(id(self), 0) + 1
        m.depth[id(self)] = d
        m.max_depth = max(m.max_depth, d)
        try:
            self.s.point("tensor.materialise")
            if self.fail is not None:
                raise self.fail
            half = self.nbytes // 2
            file.write(self._data[:half])
            self.s.point("tensor.write")
            file.write(self._data[half:])
        finally:
            m.live -= self.nbytes
            m.depth[id(self)] -= 1


class _Interrupt(BaseException):
    """A failure outside the Exception hierarchy (like KeyboardInterrupt / SystemExit raised by a tensor)."""


def _sub_tensor(s, mon, name, nbytes, fill):
    """The same harness behaviour on a subclass of ir.Tensor (frameworks subclass it to convert storage on demand)."""
    import numpy as np

    class HSub(ir.Tensor):
        def tofile(self, file):
            return HTensor.tofile(self, file)

    t = HSub(np.frombuffer(bytes([fill]) * nbytes, dtype=np.uint8), name=name)
    t.s, t.mon, t._data, t.fail = s, mon, bytes([fill]) * nbytes, None
    return t


# configurations: (name, sizes, same_object_pairs, max_workers, max_shard, fail_tensor, fail_callback_at)
def configs(tier):
    cs = [
        dict(name="oversized1", sizes=[5, 3, 9], workers=2),
        dict(name="oversized2", sizes=[9, 9, 2], workers=3),
        dict(name="shared_object", sizes=[3, 5], shared=[0, 0, 1], workers=2),
        dict(name="sharded_serial_inner", sizes=[5, 3, 5, 3], workers=3, shard=8),
        dict(name="fail_tensor", sizes=[5, 5, 3], workers=2, fail_tensor=0),
        dict(name="fail_callback", sizes=[5, 5, 3], workers=2, fail_cb=1),
        dict(name="sharded_parallel_inner", sizes=[3, 3, 3, 3], workers=6, shard=6),
        dict(name="two_regular_one_oversized", sizes=[5, 5, 9], workers=3),
        # one tensor object in two shards, one written by the parallel writer and one by the serial writer
        dict(name="shared_across_parallel_and_serial_shard", sizes=[5, 3], shared=[0, 1, 0], workers=6, shard=8),
        # a failure that is a BaseException but not an Exception (KeyboardInterrupt-like)
        dict(name="fail_tensor_base_exception", sizes=[5, 5, 3], workers=2, fail_tensor=0, fail_kind="base"),
        # the shared object is an instance of a subclass of ir.Tensor that does work in tofile
        dict(name="shared_object_tensor_subclass", sizes=[3, 5], shared=[0, 0, 1], workers=2, subclass=True),
        # lock releases are scheduling points as well: what a thread does right after leaving a critical section
        # (publishing a counter, returning a token) can interleave with the other workers
        dict(name="tight_budget_release_points", sizes=[5, 5, 3], workers=2, release_points=True),
        dict(name="oversized_release_points", sizes=[9, 9], workers=2, release_points=True),
        # sources are real external tensors (streamed in 4-byte chunks, reserved as such); once never read, once read
        # before the save: what is handed to write() at any time must stay within budget + largest tensor
        dict(name="external_sources", sizes=[9, 9, 9], workers=3, external=True),
        dict(name="external_sources_read_before_the_save", sizes=[9, 9, 9], workers=3, external=True, read_first=True),
    ]
    if tier == "thorough":
        cs += [
            dict(name="tight4", sizes=[5, 5, 5, 5], workers=3),
            dict(name="fail_tensor_mid", sizes=[5, 5, 3], workers=2, fail_tensor=1),
            dict(name="fail_tensor_oversized", sizes=[9, 5, 9], workers=2, fail_tensor=0),
            dict(name="fail_sharded", sizes=[5, 3, 5, 3], workers=3, shard=8, fail_tensor=2),
            dict(name="shared_sharded", sizes=[5, 3], shared=[0, 1, 0, 1], workers=3, shard=8),
            dict(name="five", sizes=[2, 3, 5, 9, 2], workers=3),
            dict(name="three_shards", sizes=[5, 5, 5], workers=3, shard=5),
            dict(name="tight_budget_three_workers_release_points", sizes=[5, 5, 3], workers=3, release_points=True),
            dict(name="fail_tensor_release_points", sizes=[5, 5, 3], workers=2, fail_tensor=0, release_points=True),
            dict(name="shared_object_release_points", sizes=[3, 5], shared=[0, 0, 1], workers=2, release_points=True),
        ]
    return cs


class _RecordingBudget(ed._ByteBudget):
    registry: list = []

    def __init__(self, capacity):
        super().__init__(capacity)
        _RecordingBudget.registry.append(self)
        self.regular_out = 0  # reservations granted and not yet given back, as seen by the callers
        self.oversized_out = 0
        self.max_regular_out = 0
        self.max_oversized_out = 0

    def acquire(self, nbytes):
        token = super().acquire(nbytes)
        if token == -1:
            self.oversized_out += 1
            self.max_oversized_out = max(self.max_oversized_out, self.oversized_out)
        else:
            self.regular_out += token
            self.max_regular_out = max(self.max_regular_out, self.regular_out)
        return token

    def release(self, reservation):
        if reservation == -1:
            self.oversized_out -= 1
        else:
            self.regular_out -= reservation
        return super().release(reservation)


def _expected_files(cfg, root):
    """Serial reference save of the same configuration (real threading, no scheduler)."""
    d = os.path.join(root, "ref")
    os.makedirs(d, exist_ok=True)
    mon = Monitor()
    dummy = sched.Scheduler()
    dummy.point = lambda *a, **k: None
    tensors = _make_tensors(cfg, dummy, mon, with_fail=False, root=root)
    r = ed._write_external_tensors(tensors, d, "w.data", max_shard_size_bytes=cfg.get("shard"), callback=None,
                                   max_workers=None, max_in_flight_bytes=BUDGET, alignment=None, align_threshold=0)
    out = {}
    for f in sorted(os.listdir(d)):
        out[f] = open(os.path.join(d, f), "rb").read()
    shutil.rmtree(d)
    # the returned external tensors, position by position (callers zip them with the initializers)
    out["<returned>"] = [(t.location, t.offset, t.length) for t in r]
    return out


class _CountingFile:
    """Destination file proxy without fileno(): every byte of an external source goes through write(), which is
    where the bytes are materialised; the size of the buffer handed to write() is what the writer holds in memory."""

    def __init__(self, real, s, mon):
        self._f, self._s, self._mon = real, s, mon

    def write(self, b):
        n = len(b)
        m = self._mon
        m.live += n
        m.max_live = max(m.max_live, m.live)
        try:
            self._s.point("file.write")
            return self._f.write(b)
        finally:
            m.live -= n

    def seek(self, *a):
        return self._f.seek(*a)

    def tell(self):
        return self._f.tell()

    def truncate(self, *a):
        return self._f.truncate(*a)

    def flush(self):
        return self._f.flush()

    def close(self):
        return self._f.close()

    @property
    def closed(self):
        return self._f.closed

    def __enter__(self):
        return self

    def __exit__(self, *a):
        self._f.close()
        return False


def _external_sources(cfg, root):
    """Real ExternalTensor objects over one source file (optionally read once before the save, as a loaded model
    whose weights were inspected would be)."""
    src = os.path.join(root, "src")
    os.makedirs(src, exist_ok=True)
    fn = os.path.join(src, "weights.bin")
    sizes = cfg["sizes"]
    if not os.path.exists(fn):
        with open(fn, "wb") as f:
            for i, n in enumerate(sizes):
                f.write(bytes([65 + i]) * n)
    out, off = [], 0
    for i, n in enumerate(sizes):
        t = ir.ExternalTensor("weights.bin", off, n, ir.DataType.UINT8, shape=ir.Shape([n]), name=f"t{i}", base_dir=src)
        if cfg.get("read_first"):
            t.tobytes()
        out.append(t)
        off += n
    return out


def _make_tensors(cfg, s, mon, with_fail=True, root=None):
    if cfg.get("external"):
        objs = _external_sources(cfg, root)
        order = cfg.get("shared") or list(range(len(objs)))
        return [objs[i] for i in order]
    objs = []
    for i, n in enumerate(cfg["sizes"]):
        fail = None
        if with_fail and cfg.get("fail_tensor") == i:
            fail = _Interrupt("interrupt") if cfg.get("fail_kind") == "base" else RuntimeError("boom")
        if cfg.get("subclass"):
            objs.append(_sub_tensor(s, mon, f"t{i}", n, 65 + i))
        else:
            objs.append(HTensor(s, mon, f"t{i}", n, 65 + i, fail))
    order = cfg.get("shared") or list(range(len(objs)))
    return [objs[i] for i in order]


def run_one(cfg, root, expected, choices):
    """One controlled execution. Returns (trace, verdict dict)."""
    s = sched.Scheduler(choices)
    s.release_points = bool(cfg.get("release_points"))
    th, cf = sched.make_shims(s)
    mon = Monitor()
    d = os.path.join(root, "run")
    if os.path.isdir(d):
        shutil.rmtree(d)
    os.makedirs(d)
    tensors = _make_tensors(cfg, s, mon, root=root)
    _RecordingBudget.registry = []
    info = {}

    def callback(tensor, cbinfo):
        mon.cb_depth += 1
        mon.max_cb_depth = max(mon.max_cb_depth, mon.cb_depth)
        try:
            s.point("callback")
            mon.cb_calls.append((cbinfo.index, cbinfo.filename, cbinfo.offset))
            if cfg.get("fail_cb") == cbinfo.index:
                raise KeyError("cb-boom")
        finally:
            mon.cb_depth -= 1

    def body(_s):
        try:
            r = ed._write_external_tensors(
                tensors, d, "w.data", max_shard_size_bytes=cfg.get("shard"), callback=callback,
                max_workers=cfg["workers"], max_in_flight_bytes=BUDGET, alignment=None, align_threshold=0)
            info["result"] = [(t.location, t.offset, t.length) for t in r]
            return "ok"
        finally:
            # the moment control is back in the caller
            info["alive_at_return"] = [(t.id, t.name) for t in s.threads if not t.done and t is not s.current]
            info["budgets"] = [(b._in_flight, b._oversized_active) for b in _RecordingBudget.registry]

    saved = (ed.threading, ed.concurrent, ed._ByteBudget)
    ed.threading, ed.concurrent, ed._ByteBudget = th, cf, _RecordingBudget
    from onnx_ir import _core as _c

    saved_chunk, had_open = _c._EXTERNAL_TENSOR_COPY_CHUNK_SIZE, "open" in ed.__dict__
    saved_open = ed.__dict__.get("open")
    if cfg.get("external"):
        import builtins

        _c._EXTERNAL_TENSOR_COPY_CHUNK_SIZE = cfg.get("chunk", 4)

        def _open(path, mode="r", *a, **k):
            f = builtins.open(path, mode, *a, **k)
            return _CountingFile(f, s, mon) if ("w" in mode or "+" in mode or "a" in mode) else f

        ed.open = _open
    try:
        outcome = s.run(body)
    finally:
        ed.threading, ed.concurrent, ed._ByteBudget = saved
        _c._EXTERNAL_TENSOR_COPY_CHUNK_SIZE = saved_chunk
        if cfg.get("external"):
            if had_open:
                ed.open = saved_open
            else:
                ed.__dict__.pop("open", None)
        for t in tensors:
            if isinstance(t, ir.ExternalTensor):
                try:
                    t.release()
                except Exception:  # noqa: BLE001
                    pass
    v = []  # violated clauses
    if s.abort_reason is not None:
        v.append(("not_live", s.abort_reason[:160]))
    else:
        failing = cfg.get("fail_tensor") is not None or cfg.get("fail_cb") is not None
        if not failing:
            if outcome[0] != "ret":
                v.append(("unexpected_exception", repr(outcome[1])))
            else:
                files = {f: open(os.path.join(d, f), "rb").read() for f in sorted(os.listdir(d))}
                expected = dict(expected)
                want_result = expected.pop("<returned>")
                if info.get("result") != want_result:
                    v.append(("returned_tensors_differ_from_serial", (info.get("result"), want_result)))
                if files != expected:
                    v.append(("files_differ_from_serial", {k: (len(files.get(k, b"")), len(expected.get(k, b""))) for k in set(files) | set(expected)}))
                n = len(tensors)
                idx = sorted(c[0] for c in mon.cb_calls)
                if idx != list(range(n)):
                    v.append(("callback_not_exactly_once", idx))
        else:
            want = (_Interrupt if cfg.get("fail_kind") == "base" else RuntimeError) if cfg.get("fail_tensor") is not None else KeyError
            if outcome[0] != "exc" or not isinstance(outcome[1], want):
                v.append(("failure_not_propagated", repr(outcome)))
            idx = [c[0] for c in mon.cb_calls]
            if len(idx) != len(set(idx)):
                v.append(("callback_more_than_once", sorted(idx)))
        if info.get("alive_at_return"):
            v.append(("returned_while_workers_running", info["alive_at_return"]))
        if any(b != (0, False) for b in info.get("budgets", [])):
            v.append(("budget_not_released", info["budgets"]))
        if mon.max_cb_depth > 1:
            v.append(("callback_overlap", mon.max_cb_depth))
        if mon.max_depth > 1:
            v.append(("tensor_object_evaluated_concurrently", mon.max_depth))
        # the budget's documented contract: regular reservations up to the capacity, at most one oversized one
        for b in _RecordingBudget.registry:
            if b.max_regular_out > b._capacity:
                v.append(("regular_reservations_exceed_the_budget", (b.max_regular_out, b._capacity)))
            if b.max_oversized_out > 1:
                v.append(("several_oversized_reservations_at_once", b.max_oversized_out))
        if mon.max_live > BUDGET + max(cfg["sizes"]):
            v.append(("memory_bound_exceeded", (mon.max_live, BUDGET + max(cfg["sizes"]))))
    obs = {"cb_order": tuple(c[0] for c in mon.cb_calls), "blocked": s.blocked_waits, "max_live": mon.max_live,
           "outcome": outcome[0] if outcome else None}
    return s.trace, {"violations": v, "obs": obs}


class _Acc:
    def __init__(self, cfg):
        self.cfg = cfg
        self.stats = {"executions": 0, "points": 0, "max_points": 0, "capped": False}
        self.found = {}
        self.orders = set()
        self.agg = {"blocked_execs": 0, "preempted_execs": 0, "max_live": 0}

    def record(self, trace, verdict):
        st = self.stats
        st["executions"] += 1
        st["points"] += len(trace)
        st["max_points"] = max(st["max_points"], len(trace))
        for clause, detail in verdict["violations"]:
            key = f"{self.cfg['name']}|{clause}"
            if key not in self.found:
                self.found[key] = {"choices": [c for _, c, _ in trace], "detail": detail, "clause": clause}
        self.orders.add(verdict["obs"]["cb_order"])
        self.agg["blocked_execs"] += 1 if verdict["obs"]["blocked"] else 0
        self.agg["preempted_execs"] += 1 if sched.preemptions(trace) else 0
        self.agg["max_live"] = max(self.agg["max_live"], verdict["obs"]["max_live"])

    def merge(self, other):
        for k in ("executions", "points"):
            self.stats[k] += other.stats[k]
        self.stats["max_points"] = max(self.stats["max_points"], other.stats["max_points"])
        self.stats["capped"] |= other.stats["capped"]
        for k, v in other.found.items():
            self.found.setdefault(k, v)
        self.orders |= other.orders
        for k in ("blocked_execs", "preempted_execs"):
            self.agg[k] += other.agg[k]
        self.agg["max_live"] = max(self.agg["max_live"], other.agg["max_live"])


def explore_config(cfg, bound, mode, cap_per_subtree=None):
    """The top of the prefix tree is expanded in this process, the subtrees below in parallel workers."""
    acc = _Acc(cfg)
    root = common.scratch_dir("c09")
    try:
        expected = _expected_files(cfg, root)
        # determinism guard: the same schedule twice gives identical observations
        a = run_one(cfg, root, expected, [])
        b = run_one(cfg, root, expected, [])
        if a != b:
            raise common.HarnessError(f"C09 replay of the default schedule diverged for {cfg['name']}")
        level = [[]]
        for _depth in range(2):
            nxt = []
            for p in level:
                trace, verdict = run_one(cfg, root, expected, p)
                if [c for _, c, _ in trace[: len(p)]] != p:
                    raise common.HarnessError(f"replay divergence in {cfg['name']}: prefix {p}")
                acc.record(trace, verdict)
                nxt += sched.children(trace, len(p), bound, mode)
            level = nxt
            if len(level) >= 128 or not level:
                break
    finally:
        shutil.rmtree(root, ignore_errors=True)
    tasks = common.shuffled([(cfg, bound, mode, k, cap_per_subtree) for k in level], cfg["name"])
    for sub in common.pmap(_subtree_owned, tasks, chunksize=max(1, len(tasks) // 256)):
        acc.merge(sub)
    return acc


def _subtree_owned(task):
    cfg, bound, mode, prefix, cap = task
    acc = _Acc(cfg)
    root = common.scratch_dir("c09")
    try:
        expected = _expected_files(cfg, root)
        stack = [list(prefix)]
        while stack:
            if cap is not None and acc.stats["executions"] >= cap:
                acc.stats["capped"] = True
                break
            p = stack.pop()
            trace, verdict = run_one(cfg, root, expected, p)
            if [c for _, c, _ in trace[: len(p)]] != p:
                raise common.HarnessError(f"replay divergence in {cfg['name']}: prefix {p} gave {[c for _, c, _ in trace[:len(p)]]}")
            acc.record(trace, verdict)
            stack.extend(reversed(sched.children(trace, len(p), bound, mode)))
        acc.orders = set(sorted(acc.orders)[:200])
        return acc
    finally:
        shutil.rmtree(root, ignore_errors=True)


def plan(tier):
    """(config, mode, bound): 'delay' = every non-default choice costs 1 (delay bounding, all configurations);
    'preempt' = only switches away from a runnable thread cost 1 (CHESS), affordable on the small configurations."""
    out = []
    for cfg in configs(tier):
        nthreads = cfg["workers"]
        ntens = len(cfg.get("shared") or cfg["sizes"])
        small = nthreads <= 2 and ntens <= 3 and not cfg.get("shard")
        if tier == "quick":
            out.append((cfg, "delay", 2))
            if small or cfg["name"] == "oversized2":
                out.append((cfg, "preempt", 1))
        else:
            out.append((cfg, "delay", 3 if nthreads <= 3 else 2))
            if small:
                out.append((cfg, "preempt", 2))
            elif nthreads <= 3 and ntens <= 4:
                out.append((cfg, "preempt", 1))
    return out


# ---------------------------------------------------------------------------
# Termination with real threads, real files and the kernel-copy path: the environment answer enumerated here is how
# much of a source data file is still there when the save runs (truncated after the model was loaded).

TS_SIZES = [9, 9, 9]


def _ts_run(truncate_to, workers, shard, timeout=30):
    """Returns (outcome, violations). Runs in a forked child killed by an alarm if it does not finish."""
    import signal

    root = common.scratch_dir("c09ts")
    bad = []
    try:
        src = os.path.join(root, "src")
        os.makedirs(src)
        total = sum(TS_SIZES)
        with open(os.path.join(src, "weights.bin"), "wb") as f:
            for i, n in enumerate(TS_SIZES):
                f.write(bytes([65 + i]) * n)
        tensors, off = [], 0
        for i, n in enumerate(TS_SIZES):
            tensors.append(ir.ExternalTensor("weights.bin", off, n, ir.DataType.UINT8, shape=ir.Shape([n]), name=f"t{i}", base_dir=src))
            off += n
        os.truncate(os.path.join(src, "weights.bin"), truncate_to)
        out = os.path.join(root, "out")
        os.makedirs(out)
        rfd, wfd = os.pipe()
        pid = os.fork()
        if pid == 0:
            try:
                os.close(rfd)
                signal.signal(signal.SIGALRM, signal.SIG_DFL)
                signal.alarm(timeout)
                try:
                    if shard:
                        _ts_save_sharded(tensors, out, dict(max_workers=workers, max_shard_size_bytes=shard))
                    else:
                        ed.convert_tensors_to_external(tensors, out, "w.data", max_workers=workers)
                    code = b"ok"
                except BaseException as e:  # noqa: BLE001
                    code = f"raised:{type(e).__name__}".encode()
                os.write(wfd, code)
            finally:
                os._exit(0)
        os.close(wfd)
        outcome = b""
        while True:
            chunk = os.read(rfd, 4096)
            if not chunk:
                break
            outcome += chunk
        os.close(rfd)
        _, status = os.waitpid(pid, 0)
        outcome = outcome.decode()
        if not outcome:
            outcome = "killed_by_watchdog" if os.WIFSIGNALED(status) else "child_died"
            bad.append(("save_does_not_terminate", f"truncate_to={truncate_to} workers={workers} shard={shard}: no result after {timeout}s"))
        elif outcome == "ok" and truncate_to < total:
            data = b"".join(open(os.path.join(out, fn), "rb").read() for fn in sorted(os.listdir(out)))
            want = b"".join(bytes([65 + i]) * n for i, n in enumerate(TS_SIZES))
            if data != want:
                bad.append(("save_succeeds_with_bytes_the_source_does_not_hold", f"truncate_to={truncate_to} workers={workers} shard={shard}: wrote {len(data)} bytes"))
    finally:
        shutil.rmtree(root, ignore_errors=True)
    return outcome, bad


def _ts_save_sharded(tensors, out, kw):
    vals = [ir.Value(name=t.name, const_value=t, shape=t.shape, type=ir.TensorType(t.dtype)) for t in tensors]
    x = ir.Value(name="x", shape=ir.Shape([1]), type=ir.TensorType(ir.DataType.UINT8))
    n = ir.Node("", "Identity", [x], name="n")
    n.outputs[0].name = "y"
    m = ir.Model(ir.Graph([x], [n.outputs[0]], nodes=[n], initializers=vals, name="g", opset_imports={"": 20}), ir_version=10)
    ir.save(m, os.path.join(out, "m.onnx"), external_data="w.data", size_threshold_bytes=0, **kw)


def _ts_work(task):
    workers, shard, tier = task
    total = sum(TS_SIZES)
    cuts = range(0, total + 1) if tier == "thorough" else sorted({0, 1, 8, 9, 10, 17, 18, 19, 26, 27})
    found = {}
    outcomes = {}
    n = 0
    for cut in cuts:
        n += 1
        outcome, bad = _ts_run(cut, workers, shard)
        outcomes[outcome] = outcomes.get(outcome, 0) + 1
        for clause, detail in bad:
            found.setdefault(f"truncated_source[workers={workers},shard={shard}]|{clause}", {"clause": clause, "detail": detail, "truncated_source": [cut, workers, shard]})
    return (workers, shard), n, outcomes, found


def main(tier):
    r = common.Run("C09", "model_checking", tier)
    ts = common.pmap(_ts_work, [(w, sh, tier) for w in (None, 2, 3) for sh in (None, 10)], chunksize=1)
    ts_runs = 0
    for (w, sh), n, outcomes, found in ts:
        common.eprint(f"  [C09] truncated_source workers={w} shard={sh}: cuts={n} outcomes={outcomes} violations={sorted(found)}")
        ts_runs += n
        for key, f in found.items():
            r.violation(key, f"{f['clause']}: {f['detail']}", {"engine": "E4-free", "truncated_source": f["truncated_source"], "oracle": f["clause"], "detail": f["detail"]})
    total_exec = total_points = 0
    per_cfg = []
    all_orders = 0
    for cfg, mode, bound in plan(tier):
        acc = explore_config(cfg, bound, mode)
        stats, found, agg, orders = acc.stats, acc.found, acc.agg, acc.orders
        common.eprint(f"  [C09] {cfg['name']} {mode}<={bound} schedules={stats['executions']} max_points={stats['max_points']} "
                      f"cb_orders={len(orders)} blocked_execs={agg['blocked_execs']} max_live={agg['max_live']} violations={list(found)}")
        total_exec += stats["executions"]
        total_points += stats["points"]
        all_orders += len(orders)
        per_cfg.append({"config": cfg, "deviation_kind": mode, "deviation_bound": bound, "schedules": stats["executions"],
                        "max_points": stats["max_points"], "distinct_callback_orders": len(orders),
                        "schedules_with_blocked_waiter": agg["blocked_execs"],
                        "schedules_with_preemption": agg["preempted_execs"], "max_live_bytes_seen": agg["max_live"], "capped": stats["capped"]})
        for key, f in found.items():
            # replay twice before reporting
            root = common.scratch_dir("c09")
            try:
                exp = _expected_files(cfg, root)
                a = run_one(cfg, root, exp, f["choices"])
                b = run_one(cfg, root, exp, f["choices"])
            finally:
                shutil.rmtree(root, ignore_errors=True)
            if a != b or not any(c == f["clause"] for c, _ in a[1]["violations"]):
                raise common.HarnessError(f"C09 violation did not replay deterministically: {key} {f}")
            r.violation(key, f"{f['clause']}: {f['detail']}", {"engine": "E4", "config": cfg, "schedule": f["choices"],
                                                               "oracle": f["clause"], "detail": f["detail"]})
        r.sample({"config": cfg["name"], "mode": mode, "bound": bound, "schedules": stats["executions"],
                  "example_callback_orders": sorted(orders)[:3]})
    r.coverage.update({
        "states": total_exec, "transitions": total_points, "traces_validated_against_impl": total_exec,
        "evaluations": total_exec, "distinct_nontrivial": all_orders,
        "rule": "a case is one complete schedule of the real writer code; distinct_nontrivial = distinct callback orders observed summed over configurations (>1 per configuration proves real interleaving)",
        "exhaustive": True, "bound": per_cfg, "truncated_source_runs": ts_runs,
    })
    r.assumptions += [
        "scheduling points at every lock/condition/future/queue/executor operation plus harness points inside tensor materialisation, tensor write and callback; code between points is atomic",
        "data races on unsynchronised accesses between points are not modelled (CPython GIL granularity)",
        "stock ThreadPoolExecutor semantics modelled by the shim: FIFO queue, lazy worker spawn up to max_workers, shutdown(wait, cancel_futures)",
        "all schedules within the stated deviation bound, per configuration (delay bound: any non-default scheduling choice; preemption bound: switches away from a runnable thread, other choices free); executions run to completion",
    ]
    return r.finish()


def replay(obj):
    if obj.get("truncated_source"):
        cut, w, sh = obj["truncated_source"]
        outcome, bad = _ts_run(cut, w, sh)
        hit = [b for b in bad if b[0] == obj["oracle"]]
        return (not hit), [outcome] + hit
    cfg = obj["config"]
    root = common.scratch_dir("c09")
    try:
        exp = _expected_files(cfg, root)
        trace, verdict = run_one(cfg, root, exp, obj["schedule"])
    finally:
        shutil.rmtree(root, ignore_errors=True)
    bad = [c for c in verdict["violations"] if c[0] == obj["oracle"]]
    return (not bad), verdict
