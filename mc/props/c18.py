"""C18 — region extraction and capture analysis are exact.

Exhaustive cut enumeration: for every generated source graph (also as Function and as GraphView)
and every pair (inputs subset, outputs subset) of its values up to a size bound - by object and by
name - the extraction is compared with a brute-force backward closure, checked for independence
from the source, and evaluated against the source with the boundary values pinned.
"""

from __future__ import annotations

import itertools

import numpy as np
import onnx
import onnx_ir as ir
import onnx_ir.analysis  # noqa: F401
from onnx_ir import _core
from onnx_ir import convenience as ir_conv

from mc import common, evalproto
from mc import gen_graphs as gg
from mc.props import c13

import logging

logging.getLogger("onnx_ir").setLevel(logging.ERROR)


class ScopeInterp(evalproto.Interp):
    """Interpreter that also returns every value of the main graph by name."""

    def run_all(self, feeds):
        g = self.model.graph
        scope = {}
        from onnx import numpy_helper

        for t in g.initializer:
            scope[t.name] = numpy_helper.to_array(t)
        for i in g.input:
            if i.name in feeds:
                scope[i.name] = feeds[i.name]
        self._run_nodes(g.node, [scope], {})
        return scope


def captured_main_values(node, main):
    """Values of `main` used inside the nested graphs of `node` (at any depth)."""
    out = []
    for a in node.attributes.values():
        if isinstance(a, ir.Attr) and not a.is_ref():
            subs = [a.value] if a.type == ir.AttributeType.GRAPH else list(a.value) if a.type == ir.AttributeType.GRAPHS else []
            for sg in subs:
                for inner in ir.traversal.RecursiveGraphIterator(sg):
                    for v in inner.inputs:
                        if v is not None and v.graph is main and not any(v is x for x in out):
                            out.append(v)
    return out


def reference_region(graph, inputs, outputs):
    """Brute-force backward closure. Returns (node list in source order, needed initializers, uncovered values)."""
    in_ids = {id(v) for v in inputs}
    needed_nodes = []
    seen_vals = set()
    stack = list(outputs)
    needed_inits = []
    uncovered = []
    while stack:
        v = stack.pop()
        if id(v) in seen_vals:
            continue
        seen_vals.add(id(v))
        if id(v) in in_ids:
            continue
        p = v.producer()
        if p is not None and p.graph is graph:
            if not any(p is n for n in needed_nodes):
                needed_nodes.append(p)
                for x in p.inputs:
                    if x is not None:
                        stack.append(x)
                stack.extend(captured_main_values(p, graph))
            continue
        if v.is_initializer():
            if not any(v is x for x in needed_inits):
                needed_inits.append(v)
        else:
            uncovered.append(v)
    order = {id(n): i for i, n in enumerate(graph)}
    needed_nodes.sort(key=lambda n: order[id(n)])
    return needed_nodes, needed_inits, uncovered


def brute_force_implicit(graph):
    """For every nested graph: outer-scope values used inside it or deeper."""
    out = {}

    def walk(g, ancestors):
        for n in g:
            for a in n.attributes.values():
                if isinstance(a, ir.Attr) and not a.is_ref():
                    subs = [a.value] if a.type == ir.AttributeType.GRAPH else list(a.value) if a.type == ir.AttributeType.GRAPHS else []
                    for sg in subs:
                        walk(sg, ancestors + [g])
        if ancestors:
            inside = {id(g)}
            for sub in g.subgraphs():
                inside.add(id(sub))
            used = set()
            for n in ir.traversal.RecursiveGraphIterator(g):
                for v in n.inputs:
                    if v is not None and id(v.graph) not in inside:
                        used.add(v)
            out[g] = used

    walk(graph, [])
    return out


def check_source(desc, proto, max_in, max_out, as_kind):
    """All cuts of one source. Returns (n_cuts, n_raised, violations)."""
    found = {}
    model = ir.from_proto(proto)
    main = model.graph
    interp = ScopeInterp(proto)
    feeds = gg.feeds_for(proto)[:2]
    scopes = [interp.run_all(f) for f in feeds]
    values = []
    for v in list(main.inputs) + list(main.initializers.values()):
        values.append(v)
    for n in main:
        values.extend(o for o in n.outputs if o.name)
    n_cuts = n_raised = 0

    def bad(clause, detail, cut):
        found.setdefault(f"{clause}|{as_kind}", {"source": desc, "cut": cut, "clause": clause, "detail": detail})

    # capture analysis
    try:
        got = ir.analysis.analyze_implicit_usage(main)
        want = brute_force_implicit(main)
        if {g.name: {v.name for v in s} for g, s in got.items()} != {g.name: {v.name for v in s} for g, s in want.items()} or \
                {id(g): {id(v) for v in s} for g, s in got.items()} != {id(g): {id(v) for v in s} for g, s in want.items()}:
            bad("implicit_usage_differs_from_brute_force", ({g.name: sorted(v.name for v in s) for g, s in got.items()}, {g.name: sorted(v.name for v in s) for g, s in want.items()}), None)
    except Exception as e:  # noqa: BLE001
        bad("implicit_usage_raises", f"{type(e).__name__}: {e}"[:120], None)

    if as_kind == "graph_init_inputs":
        # IR < 4 layout: every initializer is also listed among the graph inputs (it stays an initializer)
        if not main.initializers:
            return 0, 0, found
        for v in main.initializers.values():
            main.inputs.append(v)
    if as_kind == "graph_sharded":
        # every node carries two device configurations: the first shards the node's own output (and first input),
        # the last one is placement only
        if len(main) == 0:
            return 0, 0, found
        try:
            tp = model.add_device_configuration("tp", num_devices=2)
            pp = model.add_device_configuration("pp", num_devices=1)
            for nd in main:
                if nd.outputs and nd.outputs[0].name and (nd.outputs[0].shape is None or len(nd.outputs[0].shape) > 0):
                    nd.shard(nd.outputs[0], configuration=tp, axis=0, num_shards=2)
                ins0 = [v for v in nd.inputs if v is not None and (v.shape is None or len(v.shape) > 0)]
                if ins0:
                    nd.shard(ins0[0], configuration=tp, axis=0, num_shards=2)
                nd.set_pipeline_stage(pp, 1)
        except Exception as e:  # noqa: BLE001
            raise common.HarnessError(f"C18: could not annotate the source: {type(e).__name__}: {e}") from None
    if as_kind == "function":
        for k, v in list(main.initializers.items()):
            if not v.uses() and not v.is_graph_output():
                main.initializers.pop(k)
                values = [x for x in values if x is not v]
        if main.initializers:
            return 0, 0, found
        src = ir.Function("local", "Src", "", graph=main, attributes=[])
    elif as_kind == "view":
        src = ir.GraphView(main.inputs, main.outputs, nodes=list(main), initializers=tuple(main.initializers.values()), name=main.name, opset_imports=main.opset_imports)
    else:
        src = main
    src_ids = {id(o) for o in c13._objs([main])}
    for k_in in range(0, max_in + 1):
        for ins in itertools.combinations(values, k_in):
            for k_out in range(1, max_out + 1):
                for outs in itertools.combinations(values, k_out):
                    for by_name in (False, True):
                        n_cuts += 1
                        cut = ([v.name for v in ins], [v.name for v in outs], "by_name" if by_name else "by_object")
                        ref_nodes, ref_inits, uncovered = reference_region(main, ins, outs)
                        try:
                            res = ir_conv.extract(src, [v.name if by_name else v for v in ins], [v.name if by_name else v for v in outs])
                            exc = None
                        except Exception as e:  # noqa: BLE001
                            res, exc = None, e
                        if uncovered:
                            n_raised += 1
                            if exc is None:
                                bad("uncovered_requirement_did_not_raise", [v.name for v in uncovered], cut)
                            continue
                        if exc is not None:
                            bad("bounded_region_rejected", f"{type(exc).__name__}: {exc}"[:160], cut)
                            continue
                        got_nodes = [n.name for n in res]
                        if got_nodes != [n.name for n in ref_nodes]:
                            bad("node_set_or_order_differs", (got_nodes, [n.name for n in ref_nodes]), cut)
                            continue
                        got_inits = set(res.initializers)
                        need = {v.name for v in ref_inits}
                        if not need <= got_inits | {v.name for v in ins}:
                            bad("needed_initializer_missing", (sorted(need), sorted(got_inits)), cut)
                        if [v.name for v in res.inputs] != [v.name for v in ins] or [v.name for v in res.outputs] != [v.name for v in outs]:
                            bad("boundary_not_preserved", ([v.name for v in res.inputs], [v.name for v in res.outputs]), cut)
                        shared = [o for o in c13._objs([res]) if id(o) in src_ids]
                        # annotations of the extracted nodes are bound to values by identity: they must name the
                        # extracted node's own inputs/outputs, never objects of the source
                        for rn in res:
                            own = {id(v) for v in list(rn.inputs) + list(rn.outputs) if v is not None}
                            for dc in rn.device_configurations:
                                for spec in dc.sharding_specs:
                                    if spec.value is not None and id(spec.value) in src_ids:
                                        shared.append(spec.value)
                                    elif spec.value is not None and id(spec.value) not in own:
                                        bad("annotation_of_extracted_node_targets_a_foreign_value", (rn.name, spec.value.name), cut)
                        if as_kind == "graph_sharded" and any(not n_.device_configurations for n_ in res):
                            bad("annotations_lost_by_extraction", [n_.name for n_ in res if not n_.device_configurations], cut)
                        if shared:
                            bad("result_shares_objects_with_the_source", [type(o).__name__ + ":" + str(getattr(o, "name", None)) for o in shared[:3]], cut)
                        # independence of references: every value used inside is defined inside
                        # evaluation with the boundary pinned
                        try:
                            m2 = ir.Model(res, ir_version=10, functions=[f.clone() for f in model.functions.values()])
                            res.opset_imports.update(main.opset_imports)
                            p2 = ir.to_proto(m2)
                            it2 = evalproto.Interp(p2)
                            for sc in scopes:
                                f2 = {v.name: sc[v.name] for v in ins if v.name in sc}
                                got_out = it2.run(f2)
                                want_out = [sc[v.name] for v in outs]
                                if not evalproto.same(got_out, want_out):
                                    bad("extracted_region_computes_something_else", ([np.asarray(x).tolist() for x in got_out], [np.asarray(x).tolist() for x in want_out]), cut)
                                    break
                        except evalproto.EvalError as e:
                            bad("extracted_region_does_not_evaluate", str(e)[:140], cut)
                        except Exception as e:  # noqa: BLE001
                            bad("extracted_region_not_serialisable", f"{type(e).__name__}: {e}"[:140], cut)
    # by-name boundaries after the names moved: extract once by name, let two values swap names, extract by name
    # again - the names must be resolved against the source as it is now
    if as_kind in ("graph", "function") and not found:
        produced = [v for v in values if v.producer() is not None and v.name]
        for a, b in itertools.combinations(produced, 2):
            try:
                ir_conv.extract(src, [], [a.name, b.name])
            except Exception:  # noqa: BLE001
                pass
            na, nb = a.name, b.name
            a.name = "c18_tmp_name"
            b.name = na
            a.name = nb
            try:
                for v in (a, b):
                    n_cuts += 1
                    ref_nodes, ref_inits, uncovered = reference_region(main, [], [v])
                    cut = ([], [v.name], "by_name_after_name_swap")
                    try:
                        res = ir_conv.extract(src, [], [v.name])
                    except Exception as e:  # noqa: BLE001
                        if not uncovered:
                            bad("bounded_region_rejected_after_name_swap", f"{type(e).__name__}: {e}"[:120], cut)
                        continue
                    if uncovered:
                        n_raised += 1
                        bad("uncovered_requirement_did_not_raise", [u.name for u in uncovered], cut)
                        continue
                    if [n.name for n in res] != [n.name for n in ref_nodes]:
                        bad("names_resolved_against_an_earlier_state_of_the_source", ([n.name for n in res], [n.name for n in ref_nodes]), cut)
                # a name that no longer exists must be refused
                n_cuts += 1
                try:
                    ir_conv.extract(src, [], ["c18_tmp_name"])
                    bad("unknown_boundary_name_accepted", "c18_tmp_name", ([], ["c18_tmp_name"], "by_name"))
                except Exception:  # noqa: BLE001
                    pass
            finally:
                b.name = "c18_tmp_name"
                a.name = na
                b.name = nb
    # views over a suffix of the node list: a boundary value produced by the dropped prefix is only CONSUMED inside
    # the view; naming it must give the same region as passing the value object
    if as_kind == "view" and not found:
        all_nodes = list(main)
        for k in range(1, len(all_nodes)):
            suffix = all_nodes[k:]
            sview = ir.GraphView(main.inputs, main.outputs, nodes=suffix, initializers=tuple(main.initializers.values()), name=main.name, opset_imports=main.opset_imports)
            from_prefix = [o for n_ in all_nodes[:k] for o in n_.outputs if o.name and any(u.node in suffix for u in o.uses())]
            for v in from_prefix:
                for out in [o for n_ in suffix for o in n_.outputs if o.name]:
                    n_cuts += 1
                    cut = ([v.name], [out.name], f"suffix_view[{k}]")
                    res = {}
                    for mode, ins_, outs_ in (("by_object", [v], [out]), ("by_name", [v.name], [out.name])):
                        try:
                            res[mode] = ("ok", [n_.name for n_ in ir_conv.extract(sview, ins_, outs_)])
                        except Exception as e:  # noqa: BLE001
                            res[mode] = ("raised", type(e).__name__)
                    if res["by_object"][0] != res["by_name"][0] or (res["by_object"][0] == "ok" and res["by_object"][1] != res["by_name"][1]):
                        bad("boundary_by_name_and_by_object_disagree_on_a_view", res, cut)
    # extract - edit inside a control-flow body (same node count) - extract again: what a body captures is read off
    # the source as it is NOW, and so is the implicit-usage analysis
    if as_kind == "graph" and not found:
        own = {id(n) for n in main}
        host_of = {}
        for top in main:
            for a in top.attributes.values():
                if a.is_ref():
                    continue
                subs = [a.as_graph()] if a.type == ir.AttributeType.GRAPH else list(a.as_graphs()) if a.type == ir.AttributeType.GRAPHS else []
                for sg in subs:
                    for bn in ir.traversal.RecursiveGraphIterator(sg):
                        host_of[id(bn)] = top
        nested = [bn for bn in main.all_nodes() if id(bn) not in own]
        cover = [v for v in list(main.inputs) + list(main.initializers.values())]
        for bn in nested:
            top = host_of.get(id(bn))
            if top is None or not top.outputs or not top.outputs[0].name:
                continue
            for idx, cur in enumerate(bn.inputs):
                if cur is None or cur.graph is not main:
                    continue
                order = {id(n_): k for k, n_ in enumerate(main)}
                for w in values:
                    if w is cur or w.type != cur.type or w.producer() is top:
                        continue
                    if w.producer() is not None and order.get(id(w.producer()), 10**9) >= order[id(top)]:
                        continue  # only values available before the host node: the edited source stays a valid graph
                    outs = [top.outputs[0]]
                    try:
                        ir_conv.extract(src, cover, outs)  # warm whatever the implementation keeps between calls
                    except Exception:  # noqa: BLE001
                        pass
                    bn.replace_input_with(idx, w)
                    try:
                        n_cuts += 1
                        cut = ([v.name for v in cover], [o.name for o in outs], f"after_body_edit[{bn.name}.inputs[{idx}]:{cur.name}->{w.name}]")
                        ref_nodes, ref_inits, uncovered = reference_region(main, cover, outs)
                        try:
                            res = ir_conv.extract(src, cover, outs)
                            exc = None
                        except Exception as e:  # noqa: BLE001
                            res, exc = None, e
                        if uncovered:
                            if exc is None:
                                bad("uncovered_requirement_did_not_raise", [v.name for v in uncovered], cut)
                        elif exc is not None:
                            bad("bounded_region_rejected_after_body_edit", f"{type(exc).__name__}: {exc}"[:160], cut)
                        elif [n.name for n in res] != [n.name for n in ref_nodes]:
                            bad("region_computed_from_an_earlier_state_of_a_body", ([n.name for n in res], [n.name for n in ref_nodes]), cut)
                        try:
                            got = ir.analysis.analyze_implicit_usage(main)
                            want = brute_force_implicit(main)
                            if {g.name: {v.name for v in s_} for g, s_ in got.items()} != {g.name: {v.name for v in s_} for g, s_ in want.items()}:
                                bad("implicit_usage_differs_from_brute_force_after_body_edit", ({g.name: sorted(v.name for v in s_) for g, s_ in got.items()}, {g.name: sorted(v.name for v in s_) for g, s_ in want.items()}), cut)
                        except Exception as e:  # noqa: BLE001
                            bad("implicit_usage_raises", f"{type(e).__name__}: {e}"[:120], cut)
                    finally:
                        bn.replace_input_with(idx, cur)
    # a longer history on a body: one of its values is listed as a body output (append, slice assignment that keeps
    # it), taken off again, and its producer is hoisted in front of the host node - the body now CAPTURES that value
    if as_kind == "graph" and not found:
        def bodies_of(graph):
            out = []
            for top_i, top in enumerate(graph):
                for a in top.attributes.values():
                    if a.is_ref():
                        continue
                    subs = [a.as_graph()] if a.type == ir.AttributeType.GRAPH else list(a.as_graphs()) if a.type == ir.AttributeType.GRAPHS else []
                    for sg_i, sg in enumerate(subs):
                        out.append((top_i, a.name, sg_i, sg))
            return out

        for top_i, aname, sg_i, sg0 in bodies_of(main):
            for bn_i, bn0 in enumerate(sg0):
                if not bn0.outputs or not bn0.outputs[0].name:
                    continue
                m2 = ir.from_proto(proto)
                g2 = m2.graph
                top = g2[top_i]
                sg = [x for x in bodies_of(g2) if x[0] == top_i and x[1] == aname and x[2] == sg_i][0][3]
                bn = sg[bn_i]
                order = {id(n_): k for k, n_ in enumerate(g2)}
                ok = True
                for v in bn.inputs:
                    if v is None:
                        continue
                    pr = v.producer()
                    if v.graph is not g2 or (pr is not None and order.get(id(pr), 10**9) >= top_i):
                        ok = False
                if not ok or any(a.type in (ir.AttributeType.GRAPH, ir.AttributeType.GRAPHS) for a in bn.attributes.values()):
                    continue
                t = bn.outputs[0]
                try:
                    was_output = t.is_graph_output()
                    if not was_output:
                        sg.outputs.append(t)
                    sg.outputs[:] = list(sg.outputs)
                    if not was_output:
                        sg.outputs.remove(t)
                    else:
                        continue  # taking a real body output away would change what the host returns
                    sg.remove(bn)
                    g2.insert_before(top, bn)
                except Exception:  # noqa: BLE001  the edit is not applicable to this body
                    continue
                n_cuts += 1
                cover2 = list(g2.inputs) + list(g2.initializers.values())
                outs2 = [top.outputs[0]] if top.outputs and top.outputs[0].name else []
                if not outs2:
                    continue
                cut = ([v.name for v in cover2], [o.name for o in outs2], f"after_output_listing_and_hoisting[{bn.name}]")
                if t.graph is not g2:
                    bad("hoisted_value_reports_another_graph", (t.name, getattr(t.graph, "name", None)), cut)
                ref_nodes, ref_inits, uncovered = reference_region(g2, cover2, outs2)
                try:
                    res = ir_conv.extract(g2, cover2, outs2)
                    exc = None
                except Exception as e:  # noqa: BLE001
                    res, exc = None, e
                if uncovered:
                    if exc is None:
                        bad("uncovered_requirement_did_not_raise", [v.name for v in uncovered], cut)
                elif exc is not None:
                    bad("bounded_region_rejected_after_hoisting", f"{type(exc).__name__}: {exc}"[:160], cut)
                elif [n.name for n in res] != [n.name for n in ref_nodes]:
                    bad("region_after_hoisting_differs", ([n.name for n in res], [n.name for n in ref_nodes]), cut)
                try:
                    got = ir.analysis.analyze_implicit_usage(g2)
                    want = brute_force_implicit(g2)
                    if {g.name: {v.name for v in s_} for g, s_ in got.items()} != {g.name: {v.name for v in s_} for g, s_ in want.items()}:
                        bad("implicit_usage_differs_from_brute_force_after_hoisting", ({g.name: sorted(v.name for v in s_) for g, s_ in got.items()}, {g.name: sorted(v.name for v in s_) for g, s_ in want.items()}), cut)
                except Exception as e:  # noqa: BLE001
                    bad("implicit_usage_raises", f"{type(e).__name__}: {e}"[:120], cut)
    return n_cuts, n_raised, found


def capture_sources():
    """IR graphs with list-of-graphs attributes: every combination of capture sets for two sibling bodies, a body
    nested inside the first sibling (which may also use values *defined in* that sibling: a node output "L", a
    formal input "I", an initializer "W"), a body one level deeper still, and a following node with a
    single-graph attribute."""
    names = ("x", "y", "a")
    subsets = [c for k in range(0, 3) for c in itertools.combinations(names, k)]
    deep_sets = [c for k in range(0, 3) for c in itertools.combinations(("x", "a", "L", "I", "W"), k)]
    deeper_sets = [c for k in range(0, 3) for c in itertools.combinations(("y", "L", "D"), k)]
    for s1 in subsets:
        for s2 in subsets[:5]:
            for s3 in subsets[:4]:
                for deep in deep_sets:
                    for deeper in deeper_sets:
                        yield (s1, s2, s3, deep, deeper)


def build_capture_graph(spec):
    s1, s2, s3, deep, deeper = spec
    x, y = ir.Value(name="x"), ir.Value(name="y")
    n0 = ir.Node("", "Add", [x, y], name="n0")
    n0.outputs[0].name = "a"
    vals = {"x": x, "y": y, "a": n0.outputs[0]}

    def body(name, caps, inner=None, extra=None, formal=None, init=None):
        nodes = []
        local = None
        for i, c in enumerate(caps):
            nd = ir.Node("", "Neg", [(extra or {}).get(c) or vals[c]], name=f"{name}_n{i}")
            nd.outputs[0].name = f"{name}_o{i}"
            nodes.append(nd)
            local = nd.outputs[0]
        if inner is not None:
            nd = ir.Node("custom", "Wrap", [local] if local is not None else [], [ir.AttrGraph("g", inner)], name=f"{name}_wrap")
            nd.outputs[0].name = f"{name}_w"
            nodes.append(nd)
        return ir.Graph([formal] if formal is not None else [], [n.outputs[0] for n in nodes[-1:]], nodes=nodes, name=name,
                        initializers=[init] if init is not None else [])

    # values defined inside b1 that deeper bodies may use
    b1_local_node = ir.Node("", "Relu", [x], name="b1_pre")
    b1_local_node.outputs[0].name = "b1_L"
    b1_formal = ir.Value(name="b1_I")
    b1_init = ir.Value(name="b1_W", const_value=ir.tensor([1.0], name="b1_W"))
    b1_vals = {"L": b1_local_node.outputs[0], "I": b1_formal, "W": b1_init}
    # a value defined inside `inner`, used by `innermost`
    inner_local_node = ir.Node("", "Relu", [y], name="inner_pre")
    inner_local_node.outputs[0].name = "inner_D"
    innermost = body("innermost", deeper, extra={"L": b1_vals["L"], "D": inner_local_node.outputs[0]}) if deeper else None
    inner = body("inner", deep, innermost, extra=b1_vals)
    if "D" in deeper:
        inner.insert_before(inner[0], inner_local_node) if len(inner) else inner.append(inner_local_node)
    b1 = body("b1", s1, inner, formal=b1_formal, init=b1_init)
    b1.insert_before(b1[0], b1_local_node)
    b2 = body("b2", s2)
    multi = ir.Node("custom", "Multi", [x], [ir.AttrGraphs("bodies", [b1, b2])], name="multi")
    multi.outputs[0].name = "m"
    b3 = body("b3", s3)
    single = ir.Node("custom", "Single", [multi.outputs[0]], [ir.AttrGraph("body", b3)], name="single")
    single.outputs[0].name = "s"
    return ir.Graph([x, y], [single.outputs[0]], nodes=[n0, multi, single], name="main", opset_imports={"": 21, "custom": 1})


def check_capture_analysis(spec):
    g = build_capture_graph(spec)
    try:
        got = ir.analysis.analyze_implicit_usage(g)
    except Exception as e:  # noqa: BLE001
        return [("implicit_usage_raises", f"{type(e).__name__}: {e}"[:120])]
    want = brute_force_implicit(g)
    a = {gr.name: sorted(v.name for v in s) for gr, s in got.items()}
    b = {gr.name: sorted(v.name for v in s) for gr, s in want.items()}
    if a != b:
        return [("implicit_usage_differs_from_brute_force", (a, b))]
    # the analysis started at a nested graph (its own captures come from beyond the analysed root), and at a function
    # wrapping the graph: the same sets, restricted to the graphs below the starting point
    out = []
    for sub in want:
        try:
            got_sub = ir.analysis.analyze_implicit_usage(sub)
        except Exception as e:  # noqa: BLE001
            out.append(("implicit_usage_raises_on_a_nested_root", f"{sub.name}: {type(e).__name__}: {e}"[:120]))
            break
        below = {id(x) for x in sub.subgraphs()}
        exp = {gr.name: sorted(v.name for v in s_) for gr, s_ in want.items() if id(gr) in below}
        if {gr.name: sorted(v.name for v in s_) for gr, s_ in got_sub.items()} != exp:
            out.append(("implicit_usage_of_a_nested_root_differs", (sub.name, {gr.name: sorted(v.name for v in s_) for gr, s_ in got_sub.items()}, exp)))
            break
    if not g.initializers:
        try:
            fn = ir.Function("local", "CaptureFn", "", graph=g, attributes=[])
            got_fn = ir.analysis.analyze_implicit_usage(fn)
            if {gr.name: sorted(v.name for v in s_) for gr, s_ in got_fn.items()} != b:
                out.append(("implicit_usage_of_a_function_differs", ({gr.name: sorted(v.name for v in s_) for gr, s_ in got_fn.items()}, b)))
        except Exception as e:  # noqa: BLE001
            out.append(("implicit_usage_raises_on_a_function", f"{type(e).__name__}: {e}"[:120]))
    return out


def _capture_work(chunk):
    out = []
    for spec in chunk:
        for clause, detail in check_capture_analysis(spec):
            out.append((spec, clause, detail))
            break
    return len(chunk), out[:3]


def sources(tier):
    out = []
    for forms, outs in gg.gen_models(1):
        out.append(("n1", forms, outs, 2, 2))
    n2 = list(gg.gen_models(2))
    for i, (forms, outs) in enumerate(n2):
        deep = any(f[0] == "If" for f in forms) or any(f[0].startswith("Call") for f in forms)
        if tier == "thorough":
            out.append(("n2", forms, outs, 2, 2))
        elif deep or i % 5 == 0:
            out.append(("n2", forms, outs, 1, 1))
    for forms, outs in list(gg.gen_dup_family())[:: (1 if tier == "thorough" else 6)]:
        out.append(("dup", forms, outs, 2, 2 if tier == "thorough" else 1))
    # deeper nesting: an If inside an If body capturing a main-graph value that nothing else uses
    for cap in ("x", "w1"):
        out.append(("nested", (("Neg", cap), ("If", "nested", "id", "v0"), ("Add", "v1", "w2")), ("v2",), 2, 2))
        out.append(("nested", (("Relu", "x"), ("If", "nested", "id", cap)), ("v1",), 2, 2))
    return out


def _work(task):
    chunk, kinds = task
    n = raised = 0
    found = {}
    for fam, forms, outs, mi, mo in chunk:
        proto = gg.make_model(forms, outs)
        for kind in kinds:
            c, r, f = check_source((forms, outs), proto, mi, mo, kind)
            n += c
            raised += r
            for k, v in f.items():
                found.setdefault(k, v)
    return n, raised, found


def main(tier):
    r = common.Run("C18", "exploration", tier)
    srcs = sources(tier)
    step = max(1, len(srcs) // 128)
    tasks = [(srcs[i:i + step], ("graph", "view", "function", "graph_init_inputs")) for i in range(0, len(srcs), step)]
    # annotated sources: the one- and two-node sources only (the cloner's annotation remapping does not depend on the rest)
    small = [x for x in srcs if x[0] in ("n1", "nested")] + [x for x in srcs if x[0] == "n2"][::40]
    tasks += [(small[i:i + 8], ("graph_sharded",)) for i in range(0, len(small), 8)]
    res = common.pmap(_work, common.shuffled(tasks, "c18"), chunksize=1)
    total = sum(a for a, _, _ in res)
    raised = sum(b for _, b, _ in res)
    found = {}
    for _, _, f in res:
        for k, v in f.items():
            found.setdefault(k, v)
    specs = list(capture_sources())
    cstep = max(1, len(specs) // 64)
    ncap = 0
    for n_done, bad_specs in common.pmap(_capture_work, [specs[i:i + cstep] for i in range(0, len(specs), cstep)]):
        ncap += n_done
        for spec, clause, detail in bad_specs:
            found.setdefault(f"{clause}|graphs_attribute", {"source": spec, "cut": None, "clause": clause, "detail": detail})
    total += ncap
    for key, f in sorted(found.items()):
        r.violation(key, f"{f['clause']} [source={f['source']} cut={f['cut']}]: {f['detail']}", {"engine": "E6", "input": {"source": f["source"], "cut": f["cut"]}, "oracle": f["clause"], "detail": f["detail"]})
    r.sample({"source": [["Neg", "x"], ["If", "nested", "id", "v0"], ["Add", "v1", "w2"]], "cut": [["v0"], ["v2"], "by_name"]})
    r.sample({"source": [["ConstF"], ["ClipMin", "x", "v0"]], "cut": [[], ["v1"], "by_object"]})
    r.coverage.update({
        "evaluations": total, "distinct_nontrivial": total - raised,
        "rule": "a case is (source graph as Graph / GraphView / Function, boundary inputs, boundary outputs, by object or by name); non-trivial = bounded cuts that returned a region (compared with the brute-force closure and evaluated)",
        "exhaustive": True, "sources": len(srcs), "cuts_that_must_raise": raised, "capture_analysis_graphs": ncap,
    })
    r.assumptions += ["the reference closure follows producers inside the source graph and values of the source graph captured by nested bodies at any depth; initializers never need to be covered",
                      "evaluation pins the boundary inputs to the values the source computes on two input tuples (mc/evalproto.py)"]
    return r.finish()


def replay(obj):
    inp = obj["input"]
    src = inp["source"]
    forms = tuple(tuple(f) for f in src[0])
    proto = gg.make_model(forms, tuple(src[1]))
    for kind in ("graph", "view", "function", "graph_init_inputs", "graph_sharded"):
        n, rs, found = check_source((forms, src[1]), proto, 2, 2, kind)
        bad = [k for k in found if k.startswith(obj["oracle"])]
        if bad:
            return False, {k: found[k]["detail"] for k in bad[:2]}
    return True, "no violation"


_ = (onnx, _core)
