"""C13 — clones are faithful and fully independent of their originals.

Sources: every model of the C02 feature catalogue deserialised to IR (nested captures, shared
values, device annotations, metadata, meta stores) x every clone variant; then EVERY single edit
(and every pair of edits in thorough) of an edit catalogue applied at every object of one side,
with the complete public snapshot of the other side compared before/after.
"""

from __future__ import annotations

import numpy as np
import onnx_ir as ir
from onnx_ir import _core
from onnx_ir import passes as ir_passes
import onnx_ir.passes.common  # noqa: F401

import logging

logging.getLogger("onnx_ir").setLevel(logging.ERROR)

from mc import common
from mc import gen_protos as gp
from mc.snapshot import Registry, diff, diff_kinds, function_rec, graph_rec, node_rec, value_rec


def sources(tier):
    out = []
    for label, m in gp.gen_models("quick", pairs=False):
        out.append(label)
    out.append("captured_sharding@11")
    out.append("function_body_sharding@11")
    out.append("sharded_before_shapes_known@11")
    out.append("unsorted_nodes_left_unsorted@10")
    out.append("node_names_reset_to_none@10")
    return out


def build_source(label):
    want = {"captured_sharding@11": "if_with_captures@10", "function_body_sharding@11": "function_with_subgraph@10", "sharded_before_shapes_known@11": "if_with_captures@10", "unsorted_nodes_left_unsorted@10": "unsorted_nodes@10", "node_names_reset_to_none@10": "if_with_captures@10"}.get(label, label)
    for lab, m in gp.gen_models("quick", pairs=False):
        if lab == want:
            if label in ("captured_sharding@11", "function_body_sharding@11", "sharded_before_shapes_known@11"):
                m.ir_version = 11
            model = ir.from_proto(m)
            if label == "function_body_sharding@11":
                # annotations made through the public API (not read from a proto) on every node of every function
                # body, nested control-flow bodies included
                cfgf = model.add_device_configuration("fn_mesh", num_devices=2, device_names=("CPU", "CUDA:0"))
                cfgp = model.add_device_configuration("fn_pipe", num_devices=1)
                def walk(g):
                    # the harness's own traversal (the library's recursive iterator is part of what is checked)
                    for n in list(g):
                        yield n
                        for a in n.attributes.values():
                            if a.is_ref():
                                continue
                            if a.type == ir.AttributeType.GRAPH:
                                yield from walk(a.as_graph())
                            elif a.type == ir.AttributeType.GRAPHS:
                                for sg in a.as_graphs():
                                    yield from walk(sg)

                for fn in model.functions.values():
                    for n in walk(fn):
                        o0 = n.outputs[0] if n.outputs else None
                        if o0 is not None and o0.name and (o0.shape is None or len(o0.shape) > 0):
                            n.shard(o0, configuration=cfgf, axis=0, num_shards=2)
                        n.set_pipeline_stage(cfgp, 1)
            if label == "sharded_before_shapes_known@11":
                # annotate while no shape is known (no dimension size can be derived), learn the shapes afterwards
                cfgs = model.add_device_configuration("early", num_devices=2)
                todo = []
                for n in model.graph.all_nodes():
                    o0 = n.outputs[0] if n.outputs else None
                    if o0 is None or not o0.name:
                        continue
                    todo.append((o0, o0.shape))
                    o0.shape = None
                    n.shard(o0, configuration=cfgs, axis=0, num_shards=2)
                for k, (o0, old_shape) in enumerate(todo):
                    o0.shape = old_shape if old_shape is not None and len(old_shape) > 0 and k % 2 else ir.Shape([8, 4])
            if label == "captured_sharding@11":
                # nodes inside the If bodies are sharded on values captured from the main graph
                cfg = model.add_device_configuration("mesh", num_devices=2)
                cfg2 = model.add_device_configuration("mesh2", num_devices=4)
                own = {id(n) for n in model.graph}
                for n in model.graph.all_nodes():
                    if id(n) in own:
                        continue
                    for v in n.inputs:
                        if v is not None and v.graph is model.graph:
                            n.shard(v, configuration=cfg, axis=0, num_shards=2)
                            n.shard(v, configuration=cfg2, axis=-1, num_shards=4, pipeline_stage=1)
                    n.shard(n.outputs[0], configuration=cfg, axis=0, num_shards=2)
            if label == "unsorted_nodes_left_unsorted@10":
                # ... and annotated on inputs whose producers come LATER in the node list (IR 11)
                model.ir_version = 11
                cfu = model.add_device_configuration("unsorted_mesh", num_devices=2)
                for n in model.graph:
                    for v in n.inputs:
                        if v is not None and v.producer() is not None and (v.shape is None or len(v.shape) > 0):
                            n.shard(v, configuration=cfu, axis=0, num_shards=2)
                # every initializer tensor carries metadata of its own
                for v in model.graph.initializers.values():
                    if v.const_value is not None:
                        v.const_value.metadata_props["origin"] = "tensor-level"
            if label == "node_names_reset_to_none@10":
                for n in model.graph.all_nodes():
                    n.name = None
            if label != "unsorted_nodes_left_unsorted@10":
                model.graph.sort()  # all other sources are cloned in topological order
            # analysis metadata on a few objects (valid and invalidated keys)
            for i, n in enumerate(model.graph.all_nodes()):
                n.meta["cost"] = [i]
                n.meta["stale"] = {"k": i}
                n.meta.invalidate("stale")
                for o in n.outputs:
                    o.meta["rank"] = [1, 2]
                    o.meta.invalidate("gone")
            for v in model.graph.inputs:
                v.meta["in"] = {"a": 1}
            model.graph.meta["g"] = [0]
            model.graph.meta.invalidate("g2")
            return model
    raise KeyError(label)


def _objs(roots):
    """Objects owned by the roots, walking DOWN only (graph -> nodes -> values / nested graphs); values are
    recorded but not expanded through uses()/producer(), so an outer-scope value does not pull the enclosing
    model in."""
    seen, order = set(), []

    def add(o):
        if o is None or id(o) in seen:
            return False
        seen.add(id(o))
        order.append(o)
        return True

    def walk_graph(g):
        if not add(g):
            return
        for v in list(g.inputs) + list(g.outputs) + (list(g.initializers.values()) if hasattr(g, "initializers") else []):
            add(v)
        for n in g:
            if not add(n):
                continue
            for v in list(n.inputs) + list(n.outputs):
                add(v)
            for a in n.attributes.values():
                if isinstance(a, ir.Attr) and not a.is_ref():
                    if a.type == ir.AttributeType.GRAPH and a.value is not None:
                        walk_graph(a.value)
                    elif a.type == ir.AttributeType.GRAPHS:
                        for gg in a.value:
                            walk_graph(gg)

    for r in roots:
        if isinstance(r, _core.Function):
            add(r)
            walk_graph(r.graph)
        else:
            walk_graph(r)
    return order


def snapshot(roots, reg, with_bytes=False, skip_ids=()):
    out = {}
    for o in _objs(roots):
        if id(o) in skip_ids:
            continue
        t = reg.token(o)
        if isinstance(o, _core.Value):
            rec = list(value_rec(o, reg, with_bytes))
            if rec[4] is not None:
                # tensors may be shared between clone and original; a shared tensor's own name follows
                # whichever value was renamed last and is re-aligned by serialisation, so it is not compared
                rec[4] = rec[4][:2] + rec[4][3:]
            out[t] = tuple(rec)
        elif isinstance(o, _core.Node):
            out[t] = node_rec(o, reg, with_bytes)
        elif isinstance(o, (_core.Graph, _core.GraphView)):
            out[t] = graph_rec(o, reg)
        elif isinstance(o, _core.Function):
            out[t] = function_rec(o, reg)
    return out


def identity_sets(roots):
    ids = {"graph": set(), "node": set(), "value": set(), "shape": set(), "type": set(), "metadata_props": set(), "meta": set(), "attributes": set()}
    for o in _objs(roots):
        if isinstance(o, (_core.Graph,)):
            ids["graph"].add(id(o))
            ids["metadata_props"].add(id(o.metadata_props))
            ids["meta"].add(id(o.meta))
        elif isinstance(o, _core.Node):
            ids["node"].add(id(o))
            ids["metadata_props"].add(id(o.metadata_props))
            ids["meta"].add(id(o.meta))
            ids["attributes"].add(id(o.attributes))
        elif isinstance(o, _core.Value):
            ids["value"].add(id(o))
            ids["metadata_props"].add(id(o.metadata_props))
            ids["meta"].add(id(o.meta))
            if o.shape is not None:
                ids["shape"].add(id(o.shape))
            t = o.type
            while t is not None and not isinstance(t, ir.DataType):
                ids["type"].add(id(t))
                t = getattr(t, "elem_type", None)
    return ids


def clone_variants(model):
    """Yield (label, original roots, clone roots, allowed outer values, serialise pair)."""
    yield "Model.clone", model, lambda: model.clone()
    yield "Model.clone(deep_copy)", model, lambda: model.clone(deep_copy=True)
    yield "functionalize", model, lambda: ir_passes.functionalize(ir.passes.common.TopologicalSortPass())(model).model
    yield "Graph.clone", model.graph, lambda: model.graph.clone()
    for f in model.functions.values():
        yield f"Function.clone[{f.name}:{f.overload}]", f, lambda f=f: f.clone()
    nodes = list(model.graph)
    if nodes:
        view = ir.GraphView(model.graph.inputs, model.graph.outputs, nodes=nodes, initializers=tuple(model.graph.initializers.values()),
                            name=model.graph.name, opset_imports=model.graph.opset_imports, doc_string=model.graph.doc_string, metadata_props=dict(model.graph.metadata_props))
        yield "GraphView.clone", view, lambda: view.clone()
    # views over a suffix of the node list: what the dropped prefix produces is an outer-scope value of the view;
    # undeclared it must be refused, listed among the view's inputs it is a proper boundary
    for k in range(1, len(nodes)):
        part = nodes[k:]
        inside = {id(o) for n in part for o in n.outputs} | {id(v) for v in model.graph.inputs} | {id(v) for v in model.graph.initializers.values()}
        needed = []
        for n in part:
            for v in n.inputs:
                if v is not None and id(v) not in inside and not any(v is x for x in needed):
                    needed.append(v)
        outs = [v for v in model.graph.outputs if id(v) in inside]
        pv = ir.GraphView(model.graph.inputs, outs, nodes=part, initializers=tuple(model.graph.initializers.values()), name=model.graph.name, opset_imports=model.graph.opset_imports)
        yield f"GraphView.clone(strict)[suffix {k}]", pv, lambda pv=pv: pv.clone()
        needed = _outer_values(pv)  # also what nested bodies of the kept nodes capture
        outs = [v for v in outs if not any(v is x for x in needed)] + [v for v in needed if v.is_graph_output() and False]
        if needed:
            dv = ir.GraphView(list(model.graph.inputs) + needed, outs, nodes=part, initializers=tuple(model.graph.initializers.values()), name=model.graph.name, opset_imports=model.graph.opset_imports)
            yield f"GraphView.clone(declared)[suffix {k}]", dv, lambda dv=dv: dv.clone()
    for n in model.graph.all_nodes():
        for a in n.attributes.values():
            if isinstance(a, ir.Attr) and not a.is_ref() and a.type == ir.AttributeType.GRAPH:
                yield f"Graph.clone(allow_outer)[{a.value.name}]", a.value, lambda g=a.value: g.clone(allow_outer_scope_values=True)
                yield f"Graph.clone(strict)[{a.value.name}]", a.value, lambda g=a.value: g.clone()


def _outer_values(graph):
    """Values used inside `graph` (or deeper) that are defined outside it."""
    inside = set()
    used = set()

    def walk(g):
        for v in list(g.inputs) + list(g.initializers.values()):
            inside.add(id(v))
        for n in g:
            for o in n.outputs:
                inside.add(id(o))
        for n in g:
            for v in n.inputs:
                if v is not None:
                    used.add(v)
            for a in n.attributes.values():
                if isinstance(a, ir.Attr) and not a.is_ref():
                    if a.type == ir.AttributeType.GRAPH:
                        walk(a.value)
                    elif a.type == ir.AttributeType.GRAPHS:
                        for gg in a.value:
                            walk(gg)
        for v in g.outputs:
            used.add(v)

    if isinstance(graph, (_core.Graph, _core.GraphView)):
        walk(graph)
    return [v for v in used if id(v) not in inside]


def _ser(o):
    p = ir.to_proto(o)
    return p.SerializeToString(deterministic=True)


# ---------------------------------------------------------------------------
# edit catalogue: (name, applicable(obj), apply(obj, ctx))

def _edits():
    E = []

    def e(name, kind):
        def deco(fn):
            E.append((name, kind, fn))
            return fn

        return deco

    @e("value.name=", "value")
    def _(v, c):
        v.name = (v.name or "v") + "_renamed"

    @e("value.dtype=", "value")
    def _(v, c):
        v.dtype = ir.DataType.INT8 if v.dtype != ir.DataType.INT8 else ir.DataType.INT16

    @e("value.type=", "value")
    def _(v, c):
        v.type = ir.SequenceType(ir.TensorType(ir.DataType.UINT8))

    @e("value.type.denotation=", "value")
    def _(v, c):
        if v.type is None or not hasattr(v.type, "denotation"):
            raise Skip()
        v.type.denotation = "CHANGED"

    @e("value.shape=", "value")
    def _(v, c):
        v.shape = ir.Shape([7, "Z"])

    @e("value.shape[0]=", "value")
    def _(v, c):
        if v.shape is None or len(v.shape) == 0 or v.shape.frozen:
            raise Skip()
        v.shape[0] = 99

    @e("value.shape.set_denotation", "value")
    def _(v, c):
        if v.shape is None or len(v.shape) == 0:
            raise Skip()
        v.shape.set_denotation(0, "DEN_CHANGED")

    @e("value.merge_shapes", "value")
    def _(v, c):
        if v.shape is None:
            raise Skip()
        v.merge_shapes(ir.Shape([5] * len(v.shape)) if all(not isinstance(d, int) for d in v.shape.dims) else ir.Shape(list(v.shape.dims)))

    @e("value.const_value=", "value")
    def _(v, c):
        v.const_value = ir.Tensor(np.array([9.0], dtype=np.float32), name=v.name)

    @e("value.const_value.metadata_props.clear()", "value")
    def _(v, c):
        t = v.const_value
        if t is None or not t.metadata_props:
            raise Skip()
        t.metadata_props.clear()

    @e("value.const_value.metadata_props[k]=", "value")
    def _(v, c):
        t = v.const_value
        if t is None:
            raise Skip()
        t.metadata_props["tensor_key"] = "tensor_value"

    @e("value.doc_string=", "value")
    def _(v, c):
        v.doc_string = "changed doc"

    @e("value.metadata_props[k]=", "value")
    def _(v, c):
        v.metadata_props["new_key"] = "new"
        for k in list(v.metadata_props):
            v.metadata_props[k] = "overwritten"

    @e("value.meta[k]=", "value")
    def _(v, c):
        v.meta["rank"] = "changed"
        v.meta["brand_new"] = 1

    @e("value.meta.invalidate", "value")
    def _(v, c):
        v.meta.invalidate("rank")
        v.meta.invalidate("in")

    @e("value.meta[stale]=", "value")
    def _(v, c):
        v.meta["gone"] = 1  # re-validates an invalidated key

    @e("value.meta mutate stored object", "value")
    def _(v, c):
        if not c.get("deep"):
            raise Skip()  # stored objects are shared by a shallow clone (documented)
        for k, x in v.meta.items():
            if isinstance(x, list):
                x.append("mutated")
            elif isinstance(x, dict):
                x["mutated"] = 1

    @e("value.replace_all_uses_with", "value")
    def _(v, c):
        w = ir.Value(name="fresh_replacement")
        v.replace_all_uses_with(w, replace_graph_outputs=True)

    @e("node.name=", "node")
    def _(n, c):
        n.name = "renamed_node"

    @e("node.op_type/domain/overload/version=", "node")
    def _(n, c):
        n.op_type, n.domain, n.overload, n.version = "Changed", "changed.domain", "chg", 5

    @e("node.doc_string=", "node")
    def _(n, c):
        n.doc_string = "changed"

    @e("node.metadata_props[k]=", "node")
    def _(n, c):
        n.metadata_props["new_key"] = "new"
        for k in list(n.metadata_props):
            n.metadata_props[k] = "overwritten"

    @e("node.meta", "node")
    def _(n, c):
        n.meta["cost"] = "changed"
        n.meta["stale"] = 3
        n.meta.invalidate("cost")

    @e("node.attributes.add", "node")
    def _(n, c):
        n.attributes.add(ir.AttrInt64("added_attr", 5))

    @e("node.attributes del/clear", "node")
    def _(n, c):
        if not n.attributes:
            raise Skip()
        for k in list(n.attributes):
            del n.attributes[k]

    @e("node.replace_input_with", "node")
    def _(n, c):
        if not n.inputs:
            raise Skip()
        n.replace_input_with(0, ir.Value(name="fresh_input"))

    @e("node.replace_input_with(None)", "node")
    def _(n, c):
        if not n.inputs:
            raise Skip()
        for i in range(len(n.inputs)):
            n.replace_input_with(i, None)

    @e("node.resize_inputs/outputs", "node")
    def _(n, c):
        n.resize_inputs(len(n.inputs) + 1)
        n.resize_outputs(len(n.outputs) + 1)

    @e("node.device_configurations=", "node")
    def _(n, c):
        n.device_configurations = ()

    @e("node.shard", "node")
    def _(n, c):
        if not n.device_configurations or not n.outputs:
            raise Skip()
        cfg = n.device_configurations[0].configuration
        n.shard(n.outputs[0], configuration=cfg, axis=0, num_shards=2)

    @e("graph.remove(node)", "node")
    def _(n, c):
        if n.graph is None:
            raise Skip()
        n.graph.remove(n)

    @e("graph.append(new node)", "graph")
    def _(g, c):
        g.append(ir.Node("", "Added", list(g.inputs)[:1], name="added_node"))

    @e("graph.inputs/outputs edit", "graph")
    def _(g, c):
        if len(g.outputs):
            g.outputs.pop()
        g.inputs.append(ir.Value(name="added_input"))

    @e("graph.initializers edit", "graph")
    def _(g, c):
        for k in list(g.initializers)[:1]:
            g.initializers.pop(k)
        g.initializers.add(ir.Value(name="added_init", const_value=ir.Tensor(np.array([1], dtype=np.int64), name="added_init")))

    @e("graph.name/doc/metadata/opset", "graph")
    def _(g, c):
        g.name = "renamed_graph"
        g.doc_string = "changed"
        g.metadata_props["gk_new"] = "v"
        for k in list(g.metadata_props):
            g.metadata_props[k] = "overwritten"
        g.opset_imports["added.domain"] = 1
        g.meta["g"] = "changed"

    @e("graph.sort+reverse", "graph")
    def _(g, c):
        nodes = list(g)
        if len(nodes) < 2:
            raise Skip()
        g.remove(nodes[0])
        g.append(nodes[0])

    return E


class Skip(Exception):
    pass


EDITS = _edits()
TENSOR_EDITS = {"value.const_value.metadata_props.clear()", "value.const_value.metadata_props[k]="}


def _targets(roots):
    objs = _objs(roots)
    return {"value": [o for o in objs if isinstance(o, _core.Value)], "node": [o for o in objs if isinstance(o, _core.Node)],
            "graph": [o for o in objs if isinstance(o, _core.Graph)]}


def _roots_of(x):
    if isinstance(x, _core.Model):
        return [x.graph] + list(x.functions.values())
    return [x]


def _model_fields(x):
    if isinstance(x, _core.Model):
        return (x.ir_version, x.producer_name, x.doc_string, tuple(x.metadata_props.items()), tuple(x.opset_imports.items()),
                tuple(x.functions), tuple(id(c) for c in x.device_configurations))
    return None


def check_variant(label, vlabel, deep):
    """Returns (n_edit_cases, violations)."""
    out = []
    n = 0

    def fresh():
        model = build_source(label)
        for lab, orig, mk in clone_variants(model):
            if lab == vlabel:
                return model, orig, mk
        raise KeyError(vlabel)

    model, orig, mk = fresh()
    outer = _outer_values(orig) if ("Graph.clone(" in vlabel or "GraphView.clone(" in vlabel) and "[" in vlabel else []
    strict = "strict" in vlabel
    try:
        cl = mk()
    except Exception as e:  # noqa: BLE001
        if strict and outer:
            return 1, []  # undeclared outer references must raise
        return 1, [("clone_raises", f"{type(e).__name__}: {e}"[:160])]
    if strict and outer:
        return 1, [("clone_with_undeclared_outer_references_did_not_raise", [v.name for v in outer][:3])]
    # (i) serialises exactly like the original
    try:
        if vlabel != "functionalize" and _ser(cl) != _ser(orig):
            d = gp.proto_diff(ir.to_proto(orig), ir.to_proto(cl))
            out.append(("clone_serializes_differently", d[:4]))
    except Exception as e:  # noqa: BLE001
        out.append(("serialization_raises", f"{type(e).__name__}: {e}"[:160]))
    ro, rc = _roots_of(orig), _roots_of(cl)
    # (ii) new objects
    io, ic = identity_sets(ro), identity_sets(rc)
    outer_ids = {id(v) for v in outer}
    for kind in io:
        shared = io[kind] & ic[kind]
        if kind == "value":
            shared -= outer_ids
        elif kind in ("shape", "type", "metadata_props", "meta"):
            # containers of declared outer-scope values are legitimately the same objects
            for v in outer:
                shared -= {id(v.shape), id(v.type), id(v.metadata_props), id(v.meta)}
                t = v.type
                while t is not None and not isinstance(t, ir.DataType):
                    shared.discard(id(t))
                    t = getattr(t, "elem_type", None)
        if shared:
            out.append((f"clone_shares_{kind}_objects", len(shared)))
    # (iii) every reference inside the clone points into the clone
    orig_only = (io["value"] | io["node"] | io["graph"]) - outer_ids
    for o in _objs(rc):
        if id(o) in orig_only:
            out.append(("clone_references_object_of_the_original", type(o).__name__ + ":" + str(getattr(o, "name", None))))
            break
    if out:
        return 1, out
    # (iv) every single edit at every object of the clone leaves the original unchanged, and vice versa
    for side in ("clone", "original"):
        for ename, kind, fn in EDITS:
            if ename in TENSOR_EDITS:
                continue  # the property lets clones share tensors; these edits are for C03 only
            model, orig, mk = fresh()
            cl = mk()
            ro, rc = _roots_of(orig), _roots_of(cl)
            ntargets = len(_targets(rc if side == "clone" else ro)[kind])
            for ti in range(ntargets):
                model, orig, mk = fresh()
                outer_ids = {id(v) for v in (_outer_values(orig) if outer else [])}
                cl = mk()
                ro, rc = _roots_of(orig), _roots_of(cl)
                edited, other = (rc, ro) if side == "clone" else (ro, rc)
                other_obj = orig if side == "clone" else cl
                reg = Registry()
                before = snapshot(other, reg, with_bytes=False, skip_ids=outer_ids)
                mf = _model_fields(other_obj)
                try:
                    ser_before = _ser(other_obj)
                except Exception:  # noqa: BLE001
                    ser_before = None
                tgt = _targets(edited)[kind][ti]
                if id(tgt) in outer_ids:
                    continue
                try:
                    fn(tgt, {"deep": deep})
                except Skip:
                    continue
                except Exception:  # noqa: BLE001  a rejected edit is fine; independence is judged on the other side
                    pass
                n += 1
                after = snapshot(other, reg, with_bytes=False, skip_ids=outer_ids)
                d = diff(before, {k: v for k, v in after.items() if k in before})
                if d or _model_fields(other_obj) != mf or set(before) - set(after):
                    out.append((f"edit_of_{side}_changes_the_other_side", (ename, diff_kinds(d), [x[:2] for x in d[:2]])))
                    break
                if ser_before is not None and not outer_ids:
                    # the untouched side must also still serialise exactly as before
                    try:
                        ser_after = _ser(other_obj)
                    except Exception as e:  # noqa: BLE001
                        ser_after = f"raises {type(e).__name__}"
                    if ser_after != ser_before:
                        out.append((f"edit_of_{side}_changes_how_the_other_side_serializes", (ename, str(ser_after)[:60] if isinstance(ser_after, str) else "different bytes")))
                        break
            if out and out[-1][0].startswith("edit_of_"):
                # one witness per edit kind is enough
                continue
    return n, out


def _work(task):
    label, vlabel = task
    deep = "deep_copy" in vlabel
    try:
        n, v = check_variant(label, vlabel, deep)
    except KeyError:
        return label, vlabel, 0, {}
    found = {}
    for clause, detail in v:
        ek = detail[0] if clause.startswith("edit_of_") else ""
        key = f"{vlabel.split('[')[0]}|{clause}|{ek}"
        found.setdefault(key, {"source": label, "variant": vlabel, "clause": clause, "detail": detail})
    return label, vlabel, n, found


PIPELINE_MEMBERS = ("ClearMetadataAndDocString", "IdentityElimination", "RemoveUnusedNodes", "TopologicalSort", "NameFix", "DeduplicateInitializers",
                    "LiftConstantsToInitializers(all,0)", "RemoveInitializersFromInputs", "AddInitializersToInputs", "RemoveUnusedOpsets", "OutputFix")


def _pipeline_work(label):
    """Every functionalized pipeline built from the library's passes (single pass, Sequential / PassManager of two
    members in every in-place/functionalized mix, three members led by the validating pass) leaves its input model's
    full snapshot unchanged and returns another object."""
    from mc.props import _passes as PS
    from mc.props import c03

    F = ir_passes.functionalize
    found = {}
    n = skipped = 0
    mk = PS.PASS_INDEX
    shapes = []
    for a in PIPELINE_MEMBERS:
        shapes.append((f"F({a})", lambda a=a: F(mk[a]())))
        for b in PIPELINE_MEMBERS:
            if a == b:
                continue
            for wl, wrap in (("Sequential", lambda ms: ir_passes.Sequential(*ms)), ("PassManager", lambda ms: ir_passes.PassManager(ms, steps=2))):
                shapes.append((f"F({wl}({a},{b}))", lambda a=a, b=b, wrap=wrap: F(wrap([mk[a](), mk[b]()]))))
                shapes.append((f"F({wl}(F({a}),{b}))", lambda a=a, b=b, wrap=wrap: F(wrap([F(mk[a]()), mk[b]()]))))
                shapes.append((f"F({wl}({a},F({b})))", lambda a=a, b=b, wrap=wrap: F(wrap([mk[a](), F(mk[b]())]))))
                shapes.append((f"F({wl}(Checker,{a},F({b})))", lambda a=a, b=b, wrap=wrap: F(wrap([mk["Checker"](), mk[a](), F(mk[b]())]))))
                shapes.append((f"F({wl}(Checker,F({a}),{b}))", lambda a=a, b=b, wrap=wrap: F(wrap([mk["Checker"](), F(mk[a]()), mk[b]()]))))
    for plabel, build in shapes:
        model = build_source(label)
        before = c03.full_snapshot(model)
        try:
            res = build()(model)
        except Exception:  # noqa: BLE001  a member rejects this source (e.g. the checker): not this property's subject
            skipped += 1
            continue
        n += 1
        cls = plabel.split("(")[1] if plabel.count("(") > 1 else "single"
        import re

        shape_cls = re.sub(r"[A-Za-z]+(\([a-z,0-9]+\))?(?=[,)])", "p", plabel.replace("Checker", "CHK"))
        if res.model is model:
            found.setdefault(f"functionalize|functionalized_pipeline_returned_its_input|{shape_cls}", {"source": label, "variant": plabel, "clause": "functionalized_pipeline_returned_its_input", "detail": None})
        if c03.full_snapshot(model) != before:
            found.setdefault(f"functionalize|functionalized_pipeline_changed_its_input|{shape_cls}", {"source": label, "variant": plabel, "clause": "functionalized_pipeline_changed_its_input", "detail": None})
        del cls
    return label, n, skipped, found


def main(tier):
    r = common.Run("C13", "model_checking", tier)
    tasks = []
    srcs = sources(tier)
    if tier == "quick":
        keep = ("baseline@10", "if_with_captures@10", "nested_if_initializer_in_body@10", "function_with_attributes@10", "device_configurations@11",
                "value_info_everywhere@10", "nested_types_on_values@10", "all_attribute_kinds@10", "output_is_initializer_and_input@10", "quantization_annotations@10", "captured_sharding@11", "device_configuration_in_function_body@10", "function_with_subgraph@10", "function_body_sharding@11", "sharded_before_shapes_known@11", "unsorted_nodes_left_unsorted@10", "node_names_reset_to_none@10")
        srcs = [s for s in srcs if s in keep]
    for label in srcs:
        model = build_source(label)
        for vlabel, _, _ in clone_variants(model):
            tasks.append((label, vlabel))
    res = common.pmap(_work, common.shuffled(tasks, "c13"), chunksize=1)
    total = sum(x[2] for x in res)
    found = {}
    for _, _, _, f in res:
        for k, v in f.items():
            found.setdefault(k, v)
    pres = common.pmap(_pipeline_work, srcs, chunksize=1)
    n_pipe = sum(x[1] for x in pres)
    n_pipe_skipped = sum(x[2] for x in pres)
    for _, _, _, f in pres:
        for k, v in f.items():
            found.setdefault(k, v)
    for key, f in sorted(found.items()):
        r.violation(key, f"{f['clause']} [{f['source']} / {f['variant']}]: {f['detail']}", {"engine": "E1", "input": {"source": f["source"], "variant": f["variant"]}, "oracle": f["clause"], "detail": f["detail"]})
    r.sample({"source": "if_with_captures@10", "variant": "Graph.clone(allow_outer)[then_g]", "edits": [e[0] for e in EDITS][:8]})
    r.sample({"source": "device_configurations@11", "variant": "Model.clone", "edit": "value.shape.set_denotation on every value of the clone, original snapshot compared"})
    r.coverage.update({
        "states": len(tasks), "transitions": total, "traces_validated_against_impl": total,
        "evaluations": total + n_pipe, "distinct_nontrivial": len(tasks),
        "rule": "a state is (source model, clone variant); a transition is one edit of the catalogue applied at one object of one side with the other side's full snapshot compared before/after",
        "functionalized_pipelines_run": n_pipe, "functionalized_pipelines_rejected_by_a_member": n_pipe_skipped,
        "exhaustive": True, "sources": srcs, "clone_variants": sorted({t[1].split('[')[0] for t in tasks}), "edit_catalogue": [e[0] for e in EDITS if e[0] not in TENSOR_EDITS],
    })
    r.assumptions += ["sources are topologically sorted first (the cloner documents this precondition)", "tensors and (for shallow clones) objects stored in meta may be shared by design; stored-object mutation is checked for deep_copy clones only",
                      "edit depth 1 at every object of either side (a rejected edit counts as an edit)"]
    return r.finish()


def replay(obj):
    inp = obj["input"]
    n, v = check_variant(inp["source"], inp["variant"], "deep_copy" in inp["variant"])
    bad = [c for c in v if c[0] == obj["oracle"]]
    return (not bad), v[:4]
