"""Shared pass-transition system for C05 (semantics preserved) and C14 (pass contract).

States are checker-valid models (serialised protos); transitions are the built-in passes in a
default and a non-default configuration. From every generated seed a BFS over pass sequences is
run with de-duplication on the serialised model.
"""

from __future__ import annotations

import hashlib

import numpy as np
import onnx
from onnx import helper
import onnx_ir as ir
import onnx_ir.passes.common as P
from onnx_ir.passes.common import _c_api_utils

from mc import common, evalproto
from mc import gen_graphs as gg
from mc.invariants import check_links

import logging

logging.getLogger("onnx_ir").setLevel(logging.ERROR)

PASSES = [
    ("RemoveUnusedNodes", lambda: P.RemoveUnusedNodesPass()),
    ("RemoveUnusedFunctions", lambda: P.RemoveUnusedFunctionsPass()),
    ("RemoveUnusedOpsets", lambda: P.RemoveUnusedOpsetsPass()),
    ("RemoveUnusedOpsets(process_functions=False)", lambda: P.RemoveUnusedOpsetsPass(process_functions=False)),
    ("IdentityElimination", lambda: P.IdentityEliminationPass()),
    ("CSE", lambda: P.CommonSubexpressionEliminationPass()),
    ("CSE(size_limit=0)", lambda: P.CommonSubexpressionEliminationPass(size_limit=0)),
    ("DeduplicateInitializers", lambda: P.DeduplicateInitializersPass()),
    ("DeduplicateInitializers(size_limit=1)", lambda: P.DeduplicateInitializersPass(size_limit=1)),
    ("DeduplicateHashedInitializers", lambda: P.DeduplicateHashedInitializersPass()),
    ("LiftConstantsToInitializers", lambda: P.LiftConstantsToInitializersPass()),
    ("LiftConstantsToInitializers(all,0)", lambda: P.LiftConstantsToInitializersPass(lift_all_constants=True, size_limit=0)),
    ("LiftSubgraphInitializersToMainGraph", lambda: P.LiftSubgraphInitializersToMainGraphPass()),
    ("AddInitializersToInputs", lambda: P.AddInitializersToInputsPass()),
    ("RemoveInitializersFromInputs", lambda: P.RemoveInitializersFromInputsPass()),
    ("Inline", lambda: P.InlinePass()),
    ("Inline(criteria=only Scale)", lambda: P.InlinePass(criteria=lambda f: f.name == "Scale")),
    ("NameFix", lambda: P.NameFixPass()),
    ("OutputFix", lambda: P.OutputFixPass()),
    ("TopologicalSort", lambda: P.TopologicalSortPass()),
    ("AddDefaultAttributes", lambda: P.AddDefaultAttributesPass()),
    ("ClearMetadataAndDocString", lambda: P.ClearMetadataAndDocStringPass()),
    ("ShapeInference", lambda: P.ShapeInferencePass()),
    ("ShapeInference(non-strict)", lambda: P.ShapeInferencePass(check_type=False, strict_mode=False, data_prop=False)),
    ("Checker", lambda: P.CheckerPass()),
    ("Checker(full)", lambda: P.CheckerPass(full_check=True)),
]
PASS_INDEX = {n: f for n, f in PASSES}
_INSTANCES: dict = {}


def get_pass(name):
    """One pass object per worker process, reused for every model it meets (pass objects are reusable;
    state they keep between calls must not leak from one model into the next)."""
    if name not in _INSTANCES:
        _INSTANCES[name] = PASS_INDEX[name]()
    return _INSTANCES[name]


def ser(proto):
    return proto.SerializeToString(deterministic=True)


def h(b):
    return hashlib.blake2b(b, digest_size=12).digest()


def outputs_on_feeds(proto):
    res = []
    for f in gg.feeds_for(proto):
        try:
            res.append(evalproto.run(proto, f))
        except evalproto.EvalError as e:
            res.append(("error", str(e)))
    return res


def non_initializer_inputs(proto):
    inits = {t.name for t in proto.graph.initializer}
    return [i.name for i in proto.graph.input if i.name not in inits]


def _ordered(g):
    """Is every graph of the model topologically ordered (per-graph, captures lifted)?"""
    def walk(graph):
        seen = set()
        for n in graph:
            for v in n.inputs:
                if v is not None and v.producer() is not None and v.producer().graph is graph and v.producer() not in seen:
                    return False
            for a in n.attributes.values():
                if isinstance(a, ir.Attr) and not a.is_ref():
                    subs = [a.value] if a.type == ir.AttributeType.GRAPH else list(a.value) if a.type == ir.AttributeType.GRAPHS else []
                    for sg in subs:
                        for inner in ir.traversal.RecursiveGraphIterator(sg):
                            for v in inner.inputs:
                                if v is not None and v.producer() is not None and v.producer().graph is graph and v.producer() not in seen:
                                    return False
                        if not walk(sg):
                            return False
            seen.add(n)
        return True

    return walk(g)


def apply_pass(proto_bytes, pass_name, seed_outputs, seed_inputs, want_c14=True, full_check=False, seed_feeds=None):
    """One transition. Returns dict(new_bytes, c05 violations, c14 violations, modified, crashed)."""
    proto = onnx.ModelProto.FromString(proto_bytes)
    model = ir.from_proto(proto)
    before = ser(ir.to_proto(model))
    was_ordered = _ordered(model.graph)
    p = get_pass(pass_name)
    c05, c14 = [], []
    try:
        res = p(model)
    except Exception as e:  # noqa: BLE001
        return {"crash": f"{type(e).__name__}: {str(e)[:140]}", "c05": [], "c14": [], "new": None, "modified": None}
    out_model = res.model
    # C14: identity rule
    if p.in_place and out_model is not model:
        c14.append(("in_place_pass_returned_another_object", pass_name))
    if not p.in_place and out_model is model:
        c14.append(("functional_pass_returned_its_input", pass_name))
    try:
        after_proto = ir.to_proto(out_model)
        after = ser(after_proto)
    except Exception as e:  # noqa: BLE001
        c14.append(("model_not_serializable_after_pass", f"{type(e).__name__}: {str(e)[:140]}"))
        return {"crash": None, "c05": c05, "c14": c14, "new": None, "modified": res.modified}
    if res.modified is False and after != before:
        from mc import gen_protos as gp

        c14.append(("modified_false_but_model_changed", gp.proto_diff(onnx.ModelProto.FromString(before), after_proto)[:3]))
    bad = check_links([out_model.graph] + list(out_model.functions.values()))
    if bad:
        c14.append(("links_inconsistent_after_pass", bad[:2]))
        c05.append(("links_inconsistent_after_pass", bad[:2]))
    # every name needed for serialisation is kept: consumed values and graph outputs are named
    for gph in [out_model.graph] + [f.graph for f in out_model.functions.values()]:
        for nd in ir.traversal.RecursiveGraphIterator(gph):
            for v in nd.inputs:
                if v is not None and not v.name:
                    c14.append(("consumed_value_lost_its_name", f"input of {nd.name}"))
        for sub in [gph] + list(gph.subgraphs()):
            for v in sub.outputs:
                if not v.name:
                    c14.append(("graph_output_lost_its_name", sub.name))
    # ownership across scopes: a graph output is produced inside that graph, and a node only uses values of its own
    # graph or of an enclosing one
    def _scopes(g, chain):
        yield g, chain
        for nd in g:
            for a in nd.attributes.values():
                if isinstance(a, ir.Attr) and not a.is_ref():
                    if a.type == ir.AttributeType.GRAPH and a.value is not None:
                        yield from _scopes(a.value, chain + [g])
                    elif a.type == ir.AttributeType.GRAPHS:
                        for sg in a.value:
                            yield from _scopes(sg, chain + [g])

    for root in [out_model.graph] + [f.graph for f in out_model.functions.values()]:
        for g, chain in _scopes(root, []):
            visible = {id(x) for x in chain} | {id(g)}
            for v in g.outputs:
                if v.producer() is not None and v.producer().graph is not g:
                    c14.append(("graph_output_produced_outside_its_graph", f"{g.name}: {v.name}"))
            for nd in g:
                for v in nd.inputs:
                    if v is None:
                        continue
                    owner = v.producer().graph if v.producer() is not None else v.graph
                    if owner is not None and id(owner) not in visible:
                        c14.append(("node_uses_a_value_of_a_scope_it_cannot_see", f"{nd.name} uses {v.name}"))
    if was_ordered and not _ordered(out_model.graph):
        c14.append(("ordered_graph_left_unordered", pass_name))
    # C05: semantics, interface, checker
    try:
        onnx.checker.check_model(after_proto, full_check=full_check)
    except Exception as e:  # noqa: BLE001
        c05.append(("checker_rejects_after_pass", str(e)[:160]))
    no_eval = seed_outputs is None
    if not no_eval and (len(after_proto.graph.output) != len(seed_outputs[0]) if not isinstance(seed_outputs[0], tuple) else False):
        c05.append(("number_of_graph_outputs_changed", (len(seed_outputs[0]), len(after_proto.graph.output))))
    # number and order of non-initializer inputs; an input keeps its name unless it is returned directly as a graph
    # output (the one case in which two interface names coincide and a pass is forced to rename one of them)
    ins_before, ins_after = non_initializer_inputs(proto), non_initializer_inputs(after_proto)
    returned = {o.name for o in proto.graph.output}
    if len(ins_after) != len(seed_inputs) or any(a != b and a not in returned for a, b in zip(ins_before, ins_after)):
        c05.append(("non_initializer_inputs_changed", (ins_before, ins_after)))
    if not no_eval and not any(c[0] == "checker_rejects_after_pass" for c in c05):
        if seed_feeds is None:
            got = outputs_on_feeds(after_proto)
        else:
            # the seed's own feeds; a feed that overrides an initializer-input the transformed model no longer
            # lists cannot be passed any more (the interface was reduced by design): not compared
            now_inputs = {i.name for i in after_proto.graph.input}
            got = []
            for f in seed_feeds:
                if any(k not in now_inputs for k in f):
                    got.append(None)
                    continue
                try:
                    got.append(evalproto.run(after_proto, f))
                except evalproto.EvalError as e:
                    got.append(("error", str(e)))
        for i, (a, b) in enumerate(zip(seed_outputs, got)):
            if b is None:
                continue
            if isinstance(b, tuple) and b and b[0] == "error":
                c05.append(("model_no_longer_evaluates", b[1][:140]))
                break
            if not evalproto.same(a, b):
                c05.append(("outputs_differ", {"feed": i, "before": [np.asarray(x).tolist() for x in a], "after": [np.asarray(x).tolist() for x in b]}))
                break
    # C14: fixpoint of repeated application
    if want_c14 and not c14:
        cur_model = out_model
        cur = after
        bound = sum(1 for _ in cur_model.graph.all_nodes()) + len(proto.graph.initializer) + 8
        rounds = 0
        modified = res.modified
        while modified and rounds <= bound:
            try:
                r2 = get_pass(pass_name)(cur_model)
            except Exception as e:  # noqa: BLE001
                c14.append(("repeated_application_raises", f"{type(e).__name__}: {str(e)[:120]}"))
                break
            cur_model = r2.model
            modified = r2.modified
            rounds += 1
            nxt = ser(ir.to_proto(cur_model))
            if modified is False and nxt != cur:
                c14.append(("modified_false_but_model_changed_on_repeat", rounds))
            cur = nxt
        if modified:
            c14.append(("does_not_converge", {"rounds": rounds, "bound": bound}))
        elif not c14:
            try:
                r3 = get_pass(pass_name)(cur_model)
                if ser(ir.to_proto(r3.model)) != cur:
                    c14.append(("changes_after_reporting_no_modification", pass_name))
            except Exception as e:  # noqa: BLE001
                c14.append(("repeated_application_raises", f"{type(e).__name__}: {str(e)[:120]}"))
    return {"crash": None, "c05": c05, "c14": c14, "new": after, "modified": res.modified}


def seed_protos(tier, which):
    """Yield (descriptor, ModelProto)."""
    if which == "n1":
        for forms, outs in gg.gen_models(1):
            yield (forms, outs), gg.make_model(forms, outs, extra_unused_function=True)
    elif which == "n2":
        for forms, outs in gg.gen_models(2):
            yield (forms, outs), gg.make_model(forms, outs)
    elif which == "n3":
        for forms, outs in gg.gen_models(3):
            yield (forms, outs), gg.make_model(forms, outs)
    elif which == "dupfam":
        for forms, outs in gg.gen_dup_family():
            yield (forms, outs), gg.make_model(forms, outs)
    elif which == "orderfam":
        for forms, outs in gg.gen_order_family():
            yield (forms, outs), gg.make_model(forms, outs)
    elif which == "n1_opset_pairs":
        # the same seed at two opset versions, back to back through the same pass objects (both orders)
        for i, (forms, outs) in enumerate(gg.gen_models(1)):
            order = (21, 13) if i % 2 == 0 else (13, 21)
            for v in order:
                yield (forms, outs, f"opset{v}"), gg.make_model(forms, outs, opset=v)
    elif which == "fn_default_pairs":
        # the same seed with two different sets of function attribute defaults, back to back through the same pass
        # objects (both orders): a call site that omits the attribute must get the defaults of ITS model
        k = 0
        for forms, outs in gg.gen_models(1):
            if not any(f[0] in ("CallScaleDefault", "CallFwdDefault", "CallTwice", "CallFwd") for f in forms):
                continue
            order = (False, True) if k % 2 == 0 else (True, False)
            k += 1
            for alt in order:
                yield (forms, outs, f"alt_defaults={alt}"), gg.make_model(forms, outs, alt_defaults=alt)
    elif which == "special":
        for label, m in gg.special_models():
            yield (label, ()), m
    elif which == "nameclash":
        for label, m in gg.gen_nameclash_family():
            yield (label.split(":")[0], label), m


class _WithSeed(dict):
    """found-dict that stamps every record with the serialised seed, so that a replay needs no generator."""

    def __init__(self, proto):
        super().__init__()
        self._hex = proto.SerializeToString().hex()

    def setdefault(self, k, v):
        if k not in self:
            v = dict(v, seed_hex=self._hex)
        return super().setdefault(k, v)


def replay_history(seed_hex, history, which, oracle):
    """Plain re-execution of a recorded pass sequence on the recorded seed (no search)."""
    proto = onnx.ModelProto.FromString(bytes.fromhex(seed_hex))
    outs = outputs_on_feeds(proto)
    ins = non_initializer_inputs(proto)
    state = ser(ir.to_proto(ir.from_proto(proto)))
    bad = []
    for pname in history:
        r = apply_pass(state, pname, outs, ins, seed_feeds=gg.feeds_for(proto))
        if r["crash"]:
            bad = [("pass_raises_on_valid_model", r["crash"])] if oracle.startswith("pass_raises") else []
            break
        bad = [c for c in r[which] if c[0] == oracle]
        if r["new"] is None:
            break
        state = r["new"]
    return (not bad), bad[:2]


C14_ONLY_SEEDS = {"only_a_branch_body_is_unsorted"}


def explore_seed(desc, proto, depth, which):
    """BFS over pass sequences from one seed. Returns (n_states, n_transitions, n_modifying, found)."""
    c14_only = False
    try:
        onnx.checker.check_model(proto)
    except Exception:  # noqa: BLE001
        # C05 quantifies over valid models; C14 (flag, identity, links, fixpoint) also over models the checker
        # rejects only because a graph is not in topological order yet
        if isinstance(desc[0], str) and desc[0] in C14_ONLY_SEEDS:
            c14_only = True
        else:
            return 0, 0, 0, {}, "invalid_seed"
    try:
        onnx.checker.check_model(proto, full_check=True)
        full = True
    except Exception:  # noqa: BLE001
        full = False
    no_eval = isinstance(desc[0], str) and desc[0].startswith("noeval:")
    seed_outputs = None if no_eval else outputs_on_feeds(proto)
    if not no_eval and any(isinstance(o, tuple) for o in seed_outputs) and not c14_only:
        return 0, 0, 0, {}, "seed_not_evaluable"
    seed_inputs = non_initializer_inputs(proto)
    seed_feeds = gg.feeds_for(proto)
    try:
        start = ser(ir.to_proto(ir.from_proto(proto)))
    except Exception:  # noqa: BLE001
        return 0, 0, 0, {}, "seed_not_roundtrippable"
    seen = {h(start)}
    frontier = [(start, ())]
    ntrans = nmod = 0
    found = _WithSeed(proto)
    for d in range(depth):
        nxt = []
        for state, path in frontier:
            for pname, _ in PASSES:
                r = apply_pass(state, pname, seed_outputs, seed_inputs, full_check=full, seed_feeds=seed_feeds)
                ntrans += 1
                if r["crash"]:
                    if c14_only:
                        continue  # e.g. the checker pass rejecting the not yet sorted model
                    key = f"pass_crash|{pname}|{r['crash'].split(':')[0]}"
                    found.setdefault(("c05", key), {"seed": desc, "path": list(path) + [pname], "clause": "pass_raises_on_valid_model", "detail": r["crash"]})
                    continue
                tag = f"|{desc[0]}" if isinstance(desc[0], str) else ""
                for clause, detail in ([] if c14_only else r["c05"]):
                    found.setdefault(("c05", f"{clause}|{pname}{tag}"), {"seed": desc, "path": list(path) + [pname], "clause": clause, "detail": detail})
                for clause, detail in r["c14"]:
                    if clause.startswith("modified_false_but_model_changed") and isinstance(detail, list):
                        import re

                        cls = ",".join(sorted({re.sub(r"\[\d+\]", "[]", x[0]) for x in detail}))
                        found.setdefault(("c14", f"{clause}|{pname}|{cls}"), {"seed": desc, "path": list(path) + [pname], "clause": clause, "detail": detail})
                        continue
                    found.setdefault(("c14", f"{clause}|{pname}{tag}"), {"seed": desc, "path": list(path) + [pname], "clause": clause, "detail": detail})
                if r["new"] is None:
                    continue
                if r["new"] != state:
                    nmod += 1
                hh = h(r["new"])
                if hh in seen:
                    continue
                seen.add(hh)
                if (c14_only or not r["c05"]) and not r["c14"]:
                    nxt.append((r["new"], path + (pname,)))
        frontier = nxt
        if not frontier:
            break
    return len(seen), ntrans, nmod, found, "ok"


def _work(task):
    which, lo, hi, depth, tier = task
    n_states = n_trans = n_mod = 0
    found = {}
    status = {}
    for i, (desc, proto) in enumerate(seed_protos(tier, which)):
        if i < lo:
            continue
        if i >= hi:
            break
        s, t, m, f, st = explore_seed(desc, proto, depth, which)
        status[st] = status.get(st, 0) + 1
        n_states += s
        n_trans += t
        n_mod += m
        for k, v in f.items():
            found.setdefault(k, v)
    return n_states, n_trans, n_mod, found, status


def plan(tier):
    n1 = sum(1 for _ in gg.gen_models(1))
    n2 = sum(1 for _ in gg.gen_models(2))
    nd = sum(1 for _ in gg.gen_dup_family())
    no = sum(1 for _ in gg.gen_order_family())
    nc = sum(1 for _ in gg.gen_nameclash_family())
    nsp = len(gg.special_models())
    nfd = sum(1 for _ in seed_protos("quick", "fn_default_pairs"))
    if tier == "quick":
        return [("fn_default_pairs", nfd, 1), ("nameclash", nc, 1), ("special", nsp, 2), ("n1", n1, 2), ("n1_opset_pairs", 2 * n1, 1), ("dupfam", nd, 1), ("orderfam", no, 1), ("n2", n2, 1)]
    return [("fn_default_pairs", nfd, 2), ("nameclash", nc, 2), ("special", nsp, 3), ("n1", n1, 3), ("n1_opset_pairs", 2 * n1, 2), ("dupfam", nd, 2), ("orderfam", no, 2), ("n2", n2, 2)]


def run_exploration(tier):
    tasks = []
    for which, count, depth in plan(tier):
        step = max(1, count // 64)
        if which in ("n1_opset_pairs", "fn_default_pairs"):
            step = 2 * max(1, step // 2)
        for lo in range(0, count, step):
            tasks.append((which, lo, min(count, lo + step), depth, tier))
    res = common.pmap(_work, common.shuffled(tasks, "passes"), chunksize=1)
    res = list(res) + list(common.pmap(_api_work, [(i, 2) for i in range(len(api_models()))], chunksize=1))
    res += list(common.pmap(_edit_work, [(i, tier) for i in range(len(_edit_seed_protos(tier)))], chunksize=1))
    tot = {"states": 0, "transitions": 0, "modifying": 0}
    found = {}
    status = {}
    for s, t, m, f, st in res:
        tot["states"] += s
        tot["transitions"] += t
        tot["modifying"] += m
        for k, v in f.items():
            found.setdefault(k, v)
        for k, v in st.items():
            status[k] = status.get(k, 0) + v
    return tot, found, status


# ---------------------------------------------------------------------------
# C05: models built through the API and transformed IN MEMORY (no serialisation between passes): tensor
# representations a deserialised model never has (non-contiguous arrays, lazy tensors, python-list tensors, string
# tensors) and pass sequences that see each other's in-memory leftovers

def _f32(shape=(2,)):
    return dict(type=ir.TensorType(ir.DataType.FLOAT), shape=ir.Shape(list(shape)))


def api_models():
    """(label, builder) pairs; every builder returns a fresh, checker-valid ir.Model with inputs x:[2] and c:bool."""
    def base(nodes_of, inits=()):
        def build():
            x = ir.Value(name="x", **_f32())
            c = ir.Value(name="c", type=ir.TensorType(ir.DataType.BOOL), shape=ir.Shape([]))
            ivals = [mk() for mk in inits]
            nodes, outs = nodes_of(x, c, ivals)
            g = ir.Graph([x, c], outs, nodes=nodes, initializers=ivals, opset_imports={"": gg.OPSET}, name="main")
            return ir.Model(g, ir_version=10)
        return build

    def init(name, arr_fn, wrap="tensor"):
        def mk():
            arr = arr_fn()
            if wrap == "tensor":
                t = ir.Tensor(arr, name=name)
            elif wrap == "lazy":
                t = ir.LazyTensor(lambda: ir.Tensor(arr, name=name), dtype=ir.DataType.FLOAT, shape=ir.Shape(list(arr.shape)), name=name)
            elif wrap == "list":
                t = ir.tensor(arr.tolist(), dtype=ir.DataType.FLOAT, name=name)
            return ir.Value(name=name, const_value=t, type=ir.TensorType(t.dtype), shape=ir.Shape(list(arr.shape)))
        return mk

    def two_inits_consumed(x, c, iv):
        # y = ((x * a[0]) + b[0]) - so that a and b matter separately
        def row(v, nm):
            k = ir.node("Constant", [], attributes={"value": ir.tensor([0], dtype=ir.DataType.INT64, name="")}, name=f"idx_{nm}")
            k.outputs[0].name = f"idx_{nm}_o"
            return k
        n1 = ir.node("Mul", [x, iv[0]], name="mul_a")
        n1.outputs[0].name = "xa"
        n2 = ir.node("Add", [n1.outputs[0], iv[1]], name="add_b")
        n2.outputs[0].name = "y"
        n2.outputs[0].type = ir.TensorType(ir.DataType.FLOAT)
        n2.outputs[0].shape = ir.Shape([2, 2])
        return [n1, n2], [n2.outputs[0]]

    out = []
    sq = lambda: np.array([[1.0, 2.0], [3.0, 4.0]], dtype=np.float32)  # noqa: E731
    # a and b hold the same logical matrix; one of them is a transposed view (not C-contiguous)
    out.append(("equal_initializers_one_non_contiguous", base(two_inits_consumed, [init("a", lambda: sq().T.copy().T), init("b", sq)])))
    out.append(("equal_initializers_both_non_contiguous", base(two_inits_consumed, [init("a", lambda: sq().T.copy().T), init("b", lambda: sq().T.copy().T)])))
    # same bytes in memory order, different logical matrix: a = M (C order), b = M.T viewed from the same buffer
    out.append(("transposed_view_of_equal_buffer", base(two_inits_consumed, [init("a", sq), init("b", lambda: sq().T)])))
    out.append(("equal_initializers_lazy_and_eager", base(two_inits_consumed, [init("a", sq, "lazy"), init("b", sq)])))
    out.append(("equal_initializers_from_python_lists", base(two_inits_consumed, [init("a", sq, "list"), init("b", sq, "list")])))
    out.append(("fortran_ordered_initializers", base(two_inits_consumed, [init("a", lambda: np.asfortranarray(sq())), init("b", lambda: np.asfortranarray(sq()))])))

    def const_attr_non_contiguous(x, c, iv):
        t1 = ir.Tensor(sq().T, name="")
        t2 = ir.Tensor(np.ascontiguousarray(sq().T), name="")
        k1 = ir.node("Constant", [], attributes={"value": t1}, name="k1")
        k1.outputs[0].name = "k1_o"
        k2 = ir.node("Constant", [], attributes={"value": t2}, name="k2")
        k2.outputs[0].name = "k2_o"
        n1 = ir.node("Mul", [x, k1.outputs[0]], name="mul_k1")
        n1.outputs[0].name = "xk1"
        n2 = ir.node("Add", [n1.outputs[0], k2.outputs[0]], name="add_k2")
        n2.outputs[0].name = "y"
        n2.outputs[0].type = ir.TensorType(ir.DataType.FLOAT)
        n2.outputs[0].shape = ir.Shape([2, 2])
        return [k1, k2, n1, n2], [n2.outputs[0]]

    out.append(("constant_attribute_non_contiguous", base(const_attr_non_contiguous)))
    return out


def _api_eval(proto):
    return outputs_on_feeds(proto)


def _api_work(task):
    idx, depth = task
    label, build = api_models()[idx]
    seed = ir.to_proto(build())
    onnx.checker.check_model(seed, full_check=True)
    feeds = gg.feeds_for(seed)
    want = [evalproto.run(seed, f) for f in feeds]
    found = {}
    n = 0
    names = [n_ for n_, _ in PASSES]
    hists = [(a,) for a in names] + ([(a, b) for a in names for b in names] if depth >= 2 else [])
    distinct = set()

    def rec(clause, h, detail):
        found.setdefault(("c05", f"{clause}|{h[-1]}|api:{label}"), {"clause": clause, "seed": ["api:" + label], "seed_hex": None, "path": list(h), "detail": detail})

    for h in hists:
        model = build()
        n += 1
        failed_at = None
        for k, pname in enumerate(h):
            try:
                model = PASS_INDEX[pname]()(model).model
            except Exception as e:  # noqa: BLE001
                failed_at = k
                if k == len(h) - 1:  # a failure of an earlier pass belongs to the shorter history
                    rec("pass_raises_on_valid_model", h, f"{type(e).__name__}: {str(e)[:140]}")
                break
        if failed_at is not None:
            continue
        try:
            after = ir.to_proto(model)
        except Exception as e:  # noqa: BLE001
            rec("model_not_serializable_after_pass", h, f"{type(e).__name__}: {str(e)[:140]}")
            continue
        distinct.add(after.SerializeToString(deterministic=True))
        try:
            onnx.checker.check_model(after, full_check=True)
        except Exception as e:  # noqa: BLE001
            rec("checker_rejects_after_pass", h, str(e)[:160])
            continue
        if non_initializer_inputs(after) != non_initializer_inputs(seed) or len(after.graph.output) != len(seed.graph.output):
            rec("interface_changed", h, (non_initializer_inputs(after), len(after.graph.output)))
        for i, (f, a) in enumerate(zip(feeds, want)):
            try:
                b = evalproto.run(after, f)
            except evalproto.EvalError as e:
                rec("model_no_longer_evaluates", h, str(e)[:140])
                break
            if not evalproto.same(a, b):
                rec("outputs_differ", h, {"feed": i, "before": _short(a), "after": _short(b)})
                break
    return len(distinct), n, max(0, len(distinct) - 1), found, {"ok": 1}


def _short(o):
    try:
        return [np.asarray(x).tolist() for x in o]
    except Exception:  # noqa: BLE001
        return repr(o)[:120]


def replay_api(label, history, clause):
    for lb, build in api_models():
        if "api:" + lb == label:
            idx = [l_ for l_, _ in api_models()].index(lb)
            break
    else:
        return True, f"unknown api model {label}"
    _, _, _, found, _ = _api_work((idx, len(history)))
    bad = [f for f in found.values() if f["path"] == list(history) and f["clause"] == clause]
    return (not bad), [b["detail"] for b in bad][:2]


# ---------------------------------------------------------------------------
# C05: pass - public edit - pass on ONE in-memory model. The reference for the second pass is the edited model itself
# (serialised and evaluated just before the pass runs): anything a pass, or an accessor it calls, remembered about a
# node from before the edit shows as a difference.

EDIT_SEED_FORMS = [
    (("CallScaleDefault", "x"),), (("CallTwice", "x"),), (("CallFwd", "x"),), (("CallBias", "x"),),
    (("Neg", "x"), ("Neg", "x")), (("Sub", "x", "w1"), ("Sub", "x", "w2")), (("If", "call", "neg", "x"),), (("Id", "x"), ("Neg", "v0")),
]


def _edit_seed_protos(tier):
    out = []
    seeds = []
    for forms, outs in gg.gen_models(1):
        seeds.append((forms, outs))
    by_first = {}
    for forms, outs in seeds:
        by_first.setdefault(forms[0][0], (forms, outs))
    picked = list(by_first.values())
    two = [fo for fo in gg.gen_models(2)]
    picked += two[:: max(1, len(two) // (6 if tier == "quick" else 40))]
    for forms, outs in picked:
        m = gg.make_model(forms, outs)
        # a second domain holding functions of the same names that compute something else (negated result)
        for f in list(m.functions):
            f2 = onnx.FunctionProto()
            f2.CopyFrom(f)
            f2.domain = "local2"
            last = f2.output[0]
            f2.node.append(helper.make_node("Neg", [last], [last + "_neg"], name=f"{f.name}_l2_neg"))
            f2.output[0] = last + "_neg"
            if not any(o.domain == "local" for o in f2.opset_import) and any(n.domain == "local" for n in f2.node):
                f2.opset_import.append(helper.make_opsetid("local", 1))
            m.functions.append(f2)
            # ... and an overload of the same function (same domain and name) that adds 1 before returning
            if m.ir_version >= 10:
                f3 = onnx.FunctionProto()
                f3.CopyFrom(f)
                f3.overload = "ov2"
                last3 = f3.output[0]
                f3.node.append(helper.make_node("Abs", [last3], [last3 + "_abs"], name=f"{f.name}_ov2_abs"))
                f3.output[0] = last3 + "_abs"
                m.functions.append(f3)
        m.opset_import.append(helper.make_opsetid("local2", 1))
        if not any(o.domain == "local" for o in m.opset_import):
            m.opset_import.append(helper.make_opsetid("local", 1))
        try:
            onnx.checker.check_model(m)
        except Exception:  # noqa: BLE001
            continue
        out.append(((forms, outs), m))
    return out


def _first(nodes, pred):
    for n in nodes:
        if pred(n):
            return n
    return None


_OP_SWAP = {"Neg": "Abs", "Abs": "Neg", "Relu": "Neg", "Add": "Sub", "Sub": "Add", "Mul": "Add"}


def _edits():
    """(label, fn(model) -> bool applied). Every edit goes through a public setter or method."""
    def retarget_domain(m):
        n = _first(m.graph, lambda n: n.domain == "local")
        if n is None:
            return False
        n.domain = "local2"
        return True

    def retarget_domain_in_function(m):
        for f in m.functions.values():
            if f.domain != "local":
                continue
            n = _first(f, lambda n: n.domain == "local")
            if n is not None:
                n.domain = "local2"
                return True
        return False

    def retarget_overload(m):
        n = _first(m.graph, lambda n: n.domain == "local" and (n.domain, n.op_type, "ov2") in m.functions)
        if n is None:
            return False
        n.overload = "ov2"
        return True

    def retarget_op_type(m):
        n = _first(m.graph, lambda n: n.domain == "" and n.op_type in _OP_SWAP)
        if n is None:
            return False
        n.op_type = _OP_SWAP[n.op_type]
        return True

    def set_alpha(m):
        n = _first(m.graph, lambda n: "alpha" in n.attributes)
        if n is None:
            n = _first(m.graph, lambda n: n.domain == "local" and n.op_type in ("Scale",))
            if n is None:
                return False
        n.attributes["alpha"] = ir.AttrFloat32("alpha", 7.0)
        return True

    def swap_inputs(m):
        n = _first(m.graph, lambda n: n.op_type in ("Sub",) and len(n.inputs) == 2 and n.inputs[0] is not n.inputs[1])
        if n is None:
            return False
        a, b = n.inputs
        n.replace_input_with(0, b)
        n.replace_input_with(1, a)
        return True

    def rename_value(m):
        for n in m.graph:
            for o in n.outputs:
                if o.name and not o.is_graph_output():
                    o.name = "renamed_by_edit"
                    return True
        return False

    def redirect_uses(m):
        # every consumer of the first intermediate value reads the graph input x instead
        x = m.graph.inputs[0]
        for n in m.graph:
            for o in n.outputs:
                if o.uses() and not o.is_graph_output() and o.type == x.type:
                    o.replace_all_uses_with(x)
                    return True
        return False

    return [("retarget_overload", retarget_overload), ("retarget_domain", retarget_domain), ("retarget_domain_in_function", retarget_domain_in_function), ("retarget_op_type", retarget_op_type),
            ("set_alpha", set_alpha), ("swap_inputs", swap_inputs), ("rename_value", rename_value), ("redirect_uses", redirect_uses)]


def _edit_run(proto, p1, edit_fn, p2):
    """Returns (status, detail). status in ok / skip / clause."""
    model = ir.from_proto(onnx.ModelProto.FromString(proto.SerializeToString()))
    try:
        if p1 is not None:
            model = PASS_INDEX[p1]()(model).model
    except Exception:  # noqa: BLE001  (judged by the plain exploration)
        return "skip", "first pass raises"
    try:
        if not edit_fn(model):
            return "skip", "edit not applicable"
    except Exception as e:  # noqa: BLE001
        return "skip", f"edit refused: {type(e).__name__}"
    try:
        mid = ir.to_proto(model)
        onnx.checker.check_model(mid, full_check=True)  # includes strict shape inference: an edit that leaves stale annotations is not a valid model
    except Exception:  # noqa: BLE001
        return "skip", "edited model is not valid"
    feeds = gg.feeds_for(mid)
    try:
        want = [evalproto.run(mid, f) for f in feeds]
    except evalproto.EvalError:
        return "skip", "edited model is not evaluable"
    ins = non_initializer_inputs(mid)
    try:
        model = PASS_INDEX[p2]()(model).model
    except Exception as e:  # noqa: BLE001
        return "pass_raises_on_valid_model", f"{type(e).__name__}: {str(e)[:140]}"
    try:
        after = ir.to_proto(model)
    except Exception as e:  # noqa: BLE001
        return "model_not_serializable_after_pass", f"{type(e).__name__}: {str(e)[:140]}"
    try:
        onnx.checker.check_model(after, full_check=False)
    except Exception as e:  # noqa: BLE001
        return "checker_rejects_after_pass", str(e)[:160]
    now_inputs = {i.name for i in after.graph.input}
    if len(non_initializer_inputs(after)) != len(ins) or len(after.graph.output) != len(mid.graph.output):
        return "interface_changed", (non_initializer_inputs(after), len(after.graph.output))
    for i, (f, a) in enumerate(zip(feeds, want)):
        if any(k not in now_inputs for k in f):
            continue
        try:
            b = evalproto.run(after, f)
        except evalproto.EvalError as e:
            return "model_no_longer_evaluates", str(e)[:140]
        if not evalproto.same(a, b):
            return "outputs_differ", {"feed": i, "before": _short(a), "after": _short(b)}
    return "ok", None


def _edit_work(task):
    idx, tier = task
    desc, proto = _edit_seed_protos(tier)[idx]
    names = [None] + [n for n, _ in PASSES]
    found = {}
    n = 0
    applied = 0
    for p1 in names:
        for elabel, efn in _edits():
            st0, _ = _edit_run(proto, p1, efn, "Checker")
            if st0 == "skip":
                continue
            applied += 1
            for p2, _ in PASSES:
                n += 1
                st, detail = _edit_run(proto, p1, efn, p2)
                if st not in ("ok", "skip"):
                    found.setdefault(("c05", f"{st}|{p2}|after_edit:{elabel}"), {"clause": st, "seed": [list(map(list, desc[0])), list(desc[1])], "seed_hex": proto.SerializeToString().hex(), "path": [p1, "edit:" + elabel, p2], "detail": detail})
    return applied, n, applied, found, {"ok": 1}


def replay_edit(seed_hex, history, clause):
    proto = onnx.ModelProto.FromString(bytes.fromhex(seed_hex))
    p1, e, p2 = history
    efn = dict(_edits())[e.split(":", 1)[1]]
    st, detail = _edit_run(proto, p1, efn, p2)
    return st != clause, [st, detail]


# ---------------------------------------------------------------------------
# C14: analysis passes under faults at the ONNX boundary

def analysis_fault_cases():
    """(label, model builder, pass factory, fault) -> the model must be exactly unchanged."""
    out = []
    for forms, outs in list(gg.gen_models(1))[::9] + list(gg.gen_models(2))[::400]:
        out.append((forms, outs))
    return out


def check_analysis_faults():
    from mc.props import c03

    found = {}
    n = 0

    def boom(*a, **k):
        raise RuntimeError("injected failure at the ONNX boundary")

    for forms, outs in analysis_fault_cases():
        for variant in ("plain", "initializers_without_type", "lazy_raises", "large_and_small_initializers", "initializer_declared_type_differs_from_tensor",
                        "after_analysis_and_initializer_removal", "after_analysis_and_unused_removal_pass", "after_analysis_and_input_removal"):
            for pname, mk in (("Checker", lambda: P.CheckerPass()), ("Checker(full)", lambda: P.CheckerPass(full_check=True)), ("ShapeInference", lambda: P.ShapeInferencePass()),
                              ("ShapeInference(non-strict)", lambda: P.ShapeInferencePass(check_type=False, strict_mode=False))):
                for fault in ("none", "api_raises"):
                    proto = gg.make_model(forms, outs)
                    model = ir.from_proto(proto)
                    if variant == "initializers_without_type":
                        for v in model.graph.initializers.values():
                            v.type = None
                            v.shape = None
                    elif variant == "lazy_raises":
                        v = model.graph.initializers["w3"]

                        def f():
                            raise RuntimeError("lazy tensor cannot be materialised")

                        v.const_value = ir.LazyTensor(f, dtype=ir.DataType.FLOAT, shape=ir.Shape([2]), name="w3")
                    elif variant == "large_and_small_initializers":
                        big = ir.Value(name="big", const_value=ir.Tensor(np.zeros((2000,), dtype=np.float32), name="big"), shape=ir.Shape([2000]), type=ir.TensorType(ir.DataType.FLOAT))
                        first = list(model.graph.initializers.values())
                        model.graph.initializers.clear()
                        for v in [big] + first:
                            model.graph.initializers.add(v)
                    elif variant == "initializer_declared_type_differs_from_tensor":
                        # the value says DOUBLE, its tensor holds FLOAT (constructors and the mapping interface accept this)
                        model.graph.initializers["w3"].type = ir.TensorType(ir.DataType.DOUBLE)
                    elif variant.startswith("after_analysis_and_"):
                        # an earlier history on the same object: an analysis pass ran, then something left the graph
                        try:
                            mk()(model)
                        except Exception:  # noqa: BLE001
                            pass
                        if variant == "after_analysis_and_initializer_removal":
                            unused = [k for k, v in model.graph.initializers.items() if not v.uses() and not v.is_graph_output() and not v.is_graph_input()]
                            for k in unused[:1]:
                                del model.graph.initializers[k]
                            if not unused:
                                continue
                        elif variant == "after_analysis_and_unused_removal_pass":
                            P.RemoveUnusedNodesPass()(model)
                        else:
                            extra_in = ir.Value(name="c14_extra_input", type=ir.TensorType(ir.DataType.FLOAT), shape=ir.Shape([2]))
                            model.graph.inputs.append(extra_in)
                            try:
                                mk()(model)
                            except Exception:  # noqa: BLE001
                                pass
                            model.graph.inputs.remove(extra_in)
                    n += 1
                    before = c03.full_snapshot(model)
                    init_order = list(model.graph.initializers)
                    inputs = [v.name for v in model.graph.inputs]
                    saved = (onnx.checker.check_model, onnx.shape_inference.infer_shapes)
                    if fault == "api_raises":
                        onnx.checker.check_model = boom
                        onnx.shape_inference.infer_shapes = boom
                    exc = None
                    try:
                        res = mk()(model)
                    except Exception as e:  # noqa: BLE001
                        exc = e
                        res = None
                    finally:
                        onnx.checker.check_model, onnx.shape_inference.infer_shapes = saved
                    after = c03.full_snapshot(model)
                    changed = before != after or init_order != list(model.graph.initializers) or inputs != [v.name for v in model.graph.inputs]
                    must_be_unchanged = pname.startswith("Checker") or exc is not None or (res is not None and res.modified is False)
                    if exc is not None and fault == "none" and not isinstance(exc, ir.passes.PassError) and type(exc).__name__ in ("AssertionError", "KeyError", "AttributeError", "IndexError"):
                        found.setdefault(f"analysis_pass_fails_internally|{pname}|{variant}", {"seed": (forms, outs), "path": [pname], "clause": "analysis_pass_fails_internally",
                                                                                              "detail": {"variant": variant, "raised": repr(exc)[:120]}})
                    if changed and must_be_unchanged:
                        from mc.props import c13

                        d = c13.diff(before, after)
                        what = [x[:2] for x in d[:3]] or ("initializer order" if init_order != list(model.graph.initializers) else "graph inputs")
                        found.setdefault(f"analysis_pass_changed_the_model|{pname}|{variant}|{fault}|{'raised' if exc else 'returned'}",
                                         {"seed": (forms, outs), "path": [pname], "clause": "analysis_pass_changed_the_model", "detail": {"variant": variant, "fault": fault, "raised": repr(exc)[:80] if exc else None, "changed": what}})
    return n, found


# ---------------------------------------------------------------------------
# C14: functionalize() and Sequential / PassManager compositions

def _direct(proto_bytes, names, rounds=1, early_stop=False):
    """Reference: the passes applied one after another by hand on a fresh deserialisation."""
    model = ir.from_proto(onnx.ModelProto.FromString(proto_bytes))
    any_mod = False
    for _ in range(rounds):
        step_mod = False
        for nm in names:
            res = PASS_INDEX[nm]()(model)
            model = res.model
            step_mod = step_mod or bool(res.modified)
        any_mod = any_mod or step_mod
        if early_stop and not step_mod:
            break
    return ser(ir.to_proto(model)), any_mod


def _composition_work(task):
    which, lo, hi, pair_stride = task
    from mc.props import c03

    found = {}
    n = 0
    names = [nm for nm, _ in PASSES]
    for i, (desc, proto) in enumerate(seed_protos("quick", which)):
        if i < lo:
            continue
        if i >= hi:
            break
        try:
            onnx.checker.check_model(proto)
        except Exception:  # noqa: BLE001
            continue
        pb = ser(ir.to_proto(ir.from_proto(proto)))

        def add(clause, pname, detail):
            found.setdefault(f"{clause}|{pname}", {"seed": desc, "path": [pname], "clause": clause, "detail": detail})

        # (a) functionalize(p): never touches its input, returns another object, computes what p computes
        for nm in names:
            try:
                want, want_mod = _direct(pb, [nm])
            except Exception:  # noqa: BLE001
                continue  # the pass itself fails on this model: C05's subject
            model = ir.from_proto(onnx.ModelProto.FromString(pb))
            before = c03.full_snapshot(model)
            fp = ir.passes.functionalize(PASS_INDEX[nm]())
            n += 1
            if fp.in_place or fp.changes_input:
                add("functionalized_pass_declares_in_place_or_changes_input", nm, (fp.in_place, fp.changes_input))
            try:
                res = fp(model)
            except Exception as e:  # noqa: BLE001
                add("functionalized_pass_raises_where_the_pass_does_not", nm, f"{type(e).__name__}: {str(e)[:120]}")
                continue
            if res.model is model:
                add("functionalized_pass_returned_its_input", nm, None)
            if c03.full_snapshot(model) != before:
                add("functionalized_pass_changed_its_input", nm, None)
            try:
                got = ser(ir.to_proto(res.model))
            except Exception as e:  # noqa: BLE001
                add("functionalized_result_not_serializable", nm, f"{type(e).__name__}: {str(e)[:120]}")
                continue
            if got != want:
                add("functionalized_result_differs_from_direct_application", nm, None)
            if bool(res.modified) != bool(want_mod):
                add("functionalized_modified_flag_differs", nm, (res.modified, want_mod))
        # (b) compositions of two passes
        pairs = [(a, b) for a in names for b in names]
        for j, (a, b) in enumerate(pairs):
            if (j + i) % pair_stride:
                continue
            try:
                want1, mod1 = _direct(pb, [a, b])
                want2, mod2 = _direct(pb, [a, b], rounds=3, early_stop=True)
                want3, mod3 = _direct(pb, [a, b], rounds=2, early_stop=False)
            except Exception:  # noqa: BLE001
                continue
            for label, mk, want, wmod in (
                ("Sequential", lambda: ir.passes.Sequential(PASS_INDEX[a](), PASS_INDEX[b]()), want1, mod1),
                ("PassManager(steps=3,early_stop)", lambda: ir.passes.PassManager([PASS_INDEX[a](), PASS_INDEX[b]()], steps=3, early_stop=True), want2, mod2),
                ("PassManager(steps=2,no_early_stop)", lambda: ir.passes.PassManager([PASS_INDEX[a](), PASS_INDEX[b]()], steps=2, early_stop=False), want3, mod3),
                ("functionalize(Sequential)", lambda: ir.passes.functionalize(ir.passes.Sequential(PASS_INDEX[a](), PASS_INDEX[b]())), want1, mod1),
            ):
                model = ir.from_proto(onnx.ModelProto.FromString(pb))
                before = c03.full_snapshot(model) if label.startswith("functionalize") else None
                comp = mk()
                n += 1
                nm = f"{label}[{a},{b}]"
                try:
                    res = comp(model)
                except Exception as e:  # noqa: BLE001
                    found.setdefault(f"composition_raises_where_its_members_do_not|{label}|{type(e).__name__}", {"seed": desc, "path": [nm], "clause": "composition_raises_where_its_members_do_not", "detail": f"{type(e).__name__}: {str(e)[:120]}"})
                    continue
                if comp.in_place and res.model is not model:
                    found.setdefault(f"in_place_composition_returned_another_object|{label}", {"seed": desc, "path": [nm], "clause": "in_place_composition_returned_another_object", "detail": None})
                if not comp.in_place and res.model is model:
                    found.setdefault(f"functional_composition_returned_its_input|{label}", {"seed": desc, "path": [nm], "clause": "functional_composition_returned_its_input", "detail": None})
                if before is not None and c03.full_snapshot(model) != before:
                    found.setdefault(f"functionalized_composition_changed_its_input|{label}", {"seed": desc, "path": [nm], "clause": "functionalized_composition_changed_its_input", "detail": None})
                got = ser(ir.to_proto(res.model))
                if got != want:
                    found.setdefault(f"composition_differs_from_member_by_member_application|{label}", {"seed": desc, "path": [nm], "clause": "composition_differs_from_member_by_member_application", "detail": None})
                if bool(res.modified) != bool(wmod):
                    found.setdefault(f"composition_modified_flag_differs|{label}", {"seed": desc, "path": [nm], "clause": "composition_modified_flag_differs", "detail": (res.modified, wmod)})
        # (c) compositions whose members are themselves functionalized passes, and three-member pipelines that start
        #     with a validating pass (in place, declares that it does not change its input)
        F = ir.passes.functionalize
        for j, (a, b) in enumerate(pairs):
            if (j + 3 * i) % (3 * pair_stride):
                continue
            try:
                want1, mod1 = _direct(pb, [a, b])
                want2, mod2 = _direct(pb, [a, b], rounds=3, early_stop=True)
                want_c, mod_c = _direct(pb, ["Checker", a, b])
                want_c2, mod_c2 = _direct(pb, ["Checker", a, b], rounds=3, early_stop=True)
            except Exception:  # noqa: BLE001
                continue
            A, B, C = PASS_INDEX[a], PASS_INDEX[b], PASS_INDEX["Checker"]
            members = [
                ("F,p", lambda: [F(A()), B()], 2), ("p,F", lambda: [A(), F(B())], 2), ("F,F", lambda: [F(A()), F(B())], 2),
                ("Checker,p,F", lambda: [C(), A(), F(B())], 3), ("Checker,F,p", lambda: [C(), F(A()), B()], 3), ("Checker,p,p", lambda: [C(), A(), B()], 3),
            ]
            for mlabel, mk_members, k in members:
                for wlabel, wrap, early in (
                    ("Sequential", lambda ms: ir.passes.Sequential(*ms), False),
                    ("PassManager(steps=3,early_stop)", lambda ms: ir.passes.PassManager(ms, steps=3, early_stop=True), True),
                    ("functionalize(Sequential)", lambda ms: F(ir.passes.Sequential(*ms)), False),
                    ("functionalize(PassManager(steps=3,early_stop))", lambda ms: F(ir.passes.PassManager(ms, steps=3, early_stop=True)), True),
                ):
                    want, wmod = {(2, False): (want1, mod1), (2, True): (want2, mod2), (3, False): (want_c, mod_c), (3, True): (want_c2, mod_c2)}[(k, early)]
                    model = ir.from_proto(onnx.ModelProto.FromString(pb))
                    before = c03.full_snapshot(model)
                    comp = wrap(mk_members())
                    n += 1
                    label = f"{wlabel}<{mlabel}>"
                    nm = f"{label}[{a},{b}]"
                    try:
                        res = comp(model)
                    except Exception as e:  # noqa: BLE001
                        found.setdefault(f"composition_raises_where_its_members_do_not|{label}|{type(e).__name__}", {"seed": desc, "path": [nm], "clause": "composition_raises_where_its_members_do_not", "detail": f"{type(e).__name__}: {str(e)[:120]}"})
                        continue
                    if comp.in_place and res.model is not model:
                        found.setdefault(f"in_place_composition_returned_another_object|{label}", {"seed": desc, "path": [nm], "clause": "in_place_composition_returned_another_object", "detail": None})
                    if not comp.in_place and res.model is model:
                        found.setdefault(f"functional_composition_returned_its_input|{label}", {"seed": desc, "path": [nm], "clause": "functional_composition_returned_its_input", "detail": None})
                    if (wlabel.startswith("functionalize") or (not comp.in_place and not comp.changes_input)) and c03.full_snapshot(model) != before:
                        clause = "functionalized_composition_changed_its_input" if wlabel.startswith("functionalize") else "composition_declares_input_untouched_but_changed_it"
                        found.setdefault(f"{clause}|{label}", {"seed": desc, "path": [nm], "clause": clause, "detail": None})
                    try:
                        got = ser(ir.to_proto(res.model))
                    except Exception as e:  # noqa: BLE001
                        found.setdefault(f"composition_result_not_serializable|{label}", {"seed": desc, "path": [nm], "clause": "composition_result_not_serializable", "detail": f"{type(e).__name__}: {str(e)[:120]}"})
                        continue
                    if got != want:
                        found.setdefault(f"composition_differs_from_member_by_member_application|{label}", {"seed": desc, "path": [nm], "clause": "composition_differs_from_member_by_member_application", "detail": None})
                    if bool(res.modified) != bool(wmod):
                        found.setdefault(f"composition_modified_flag_differs|{label}", {"seed": desc, "path": [nm], "clause": "composition_modified_flag_differs", "detail": (res.modified, wmod)})
    return n, found


def check_compositions(tier):
    n1 = sum(1 for _ in gg.gen_models(1))
    stride = 7 if tier == "quick" else 1
    tasks = [("n1", lo, min(n1, lo + 2), stride) for lo in range(0, n1, 2)] + [("special", 0, len(gg.special_models()), stride)]
    res = common.pmap(_composition_work, common.shuffled(tasks, "compositions"), chunksize=1)
    found = {}
    for _, f in res:
        for k, v in f.items():
            found.setdefault(k, v)
    return sum(a for a, _ in res), found
