"""C07 — external-data save/load preserves every initializer; layout is well formed.

Exhaustive configuration enumeration: model mixes (every initializer kind and size class, incl.
zero-size, sub-byte, one tensor object under two names, already-external from another file and from
the destination itself, subgraph initializers) x size threshold x alignment/align_threshold x shard
limit x worker count x destination naming x model-path spelling x backend (raw data files,
safetensors).  Quick = reduced grid, thorough = full cross product.
"""

from __future__ import annotations

import itertools
import json
import os
import shutil

import ml_dtypes
import numpy as np
import onnx
import onnx_ir as ir

from mc import common

import logging

logging.getLogger("onnx_ir").setLevel(logging.ERROR)

SIZES = (0, 3, 9, 300, 5000)


def _bytes(n, seed):
    return (np.arange(n, dtype=np.uint32) * 7 + seed).astype(np.uint8)


def mk_tensor(kind, n, seed, root):
    """A tensor of `kind` holding n bytes (n elements for byte types)."""
    if kind == "ndarray":
        return ir.Tensor(_bytes(n, seed))
    if kind == "f32":
        return ir.Tensor(_bytes(n - n % 4, seed).view(np.float32) if n >= 4 else np.zeros((0,), dtype=np.float32))
    if kind == "lazy":
        a = _bytes(n, seed)
        return ir.LazyTensor(lambda: ir.Tensor(a), dtype=ir.DataType.UINT8, shape=ir.Shape([n]))
    if kind == "int4":
        vals = ((np.arange(2 * n - (1 if n else 0)) + seed) % 16 - 8).astype(np.int8)
        return ir.Tensor(vals.astype(ml_dtypes.int4), dtype=ir.DataType.INT4)
    if kind == "packed_int4":
        return ir.PackedTensor(_bytes(n, seed), ir.DataType.UINT4, shape=ir.Shape([2 * n]))
    if kind == "uint2":
        vals = ((np.arange(4 * n - (3 if n else 0)) + seed) % 4).astype(np.uint8)
        return ir.Tensor(vals.astype(ml_dtypes.uint2), dtype=ir.DataType.UINT2)
    if kind == "proto":
        tp = onnx.TensorProto(name="p", data_type=onnx.TensorProto.UINT8, dims=[n], raw_data=_bytes(n, seed).tobytes())
        return ir.serde.deserialize_tensor(tp)
    if kind == "proto_int32":
        tp = onnx.TensorProto(name="p", data_type=onnx.TensorProto.INT16, dims=[n // 2])
        tp.int32_data.extend([(i * 3 + seed) % 1000 - 500 for i in range(n // 2)])
        return ir.serde.deserialize_tensor(tp)
    if kind == "proto_int4_int32":
        # 4-bit elements, two per byte, stored in the typed field int32_data (what helper.make_tensor(raw=False) produces)
        packed = _bytes(n, seed)
        tp = onnx.TensorProto(name="p4", data_type=onnx.TensorProto.INT4, dims=[2 * n])
        tp.int32_data.extend(int(b) for b in packed)
        return ir.serde.deserialize_tensor(tp)
    if kind == "proto_uint2_int32":
        packed = _bytes(n, seed)
        tp = onnx.TensorProto(name="p2", data_type=onnx.TensorProto.UINT2, dims=[4 * n])
        tp.int32_data.extend(int(b) for b in packed)
        return ir.serde.deserialize_tensor(tp)
    if kind == "external_other":
        fn = os.path.join(root, f"src{seed}.bin")
        with open(fn, "wb") as f:
            f.write(b"\xAA" * 5 + _bytes(n, seed).tobytes() + b"\xBB" * 3)
        return ir.ExternalTensor(os.path.basename(fn), 5, n, ir.DataType.UINT8, shape=ir.Shape([n]), name="e", base_dir=root)
    if kind == "bf16_2d":
        m = max(n // 6, 0)
        return ir.Tensor(_bytes(m * 6, seed).view(np.uint16).reshape(m, 3), dtype=ir.DataType.BFLOAT16)
    raise KeyError(kind)


MIXES = {
    # name: list of (value name, kind, bytes, where)   where in {"main", "body"}; "same:<name>" reuses that tensor object
    "plain": [("a", "ndarray", 300, "main"), ("b", "ndarray", 9, "main"), ("c", "ndarray", 5000, "main"), ("z", "ndarray", 0, "main")],
    "kinds": [("l", "lazy", 300, "main"), ("p4", "packed_int4", 9, "main"), ("i4", "int4", 300, "main"), ("u2", "uint2", 9, "main"), ("pr", "proto", 300, "main"), ("p32", "proto_int32", 300, "main"),
              ("p4i", "proto_int4_int32", 300, "main"), ("p2i", "proto_uint2_int32", 300, "main"), ("p4s", "proto_int4_int32", 3, "main")],
    "shared_object": [("w1", "ndarray", 300, "main"), ("w2", "same:w1", 300, "main"), ("small", "ndarray", 3, "main"), ("w3", "same:w1", 300, "body")],
    "subgraph": [("m", "ndarray", 300, "main"), ("bi", "ndarray", 300, "body"), ("bs", "ndarray", 3, "body"), ("bz", "lazy", 0, "body")],
    "external_other": [("e1", "external_other", 300, "main"), ("e2", "external_other", 3, "main"), ("n", "ndarray", 9, "main"), ("big", "bf16_2d", 5000, "main")],
    "many_small": [(f"s{i}", "ndarray", (3, 9)[i % 2], "main") for i in range(6)] + [("odd", "int4", 3, "main"), ("f", "f32", 9, "main")],
    "sizes": [(f"t{n}", "ndarray", n, "main") for n in SIZES] + [("u2big", "uint2", 300, "main")],
    # initializers two and three graph levels below the main graph (If inside an If branch inside an If branch)
    "nested_subgraphs": [("m", "ndarray", 300, "main"), ("b1", "ndarray", 300, "body"), ("d1", "ndarray", 300, "deep"), ("d2", "lazy", 9, "deep"), ("dd", "ndarray", 5000, "deeper")],
    # the tensor objects carry names of their own: none, empty, an unrelated one, and the name of ANOTHER initializer
    "tensor_names_differ": [("a", "ndarray", 300, "main"), ("b", "ndarray", 300, "main"), ("c", "lazy", 300, "main"), ("d", "ndarray", 300, "main"), ("e", "ndarray", 9, "main"), ("f", "ndarray", 300, "body")],
    "resave_in_place": "special",
}
TENSOR_OWN_NAMES = {"a": None, "b": "", "c": "unrelated_tensor_name", "d": "a", "e": "f", "f": "d"}
# mixes whose sources are external tensors are also saved with a kernel that copies at most 64 bytes per call
SHORT_KERNEL_COPY_MIXES = ("external_other", "resave_in_place")


def build_model(mix, root):
    spec = MIXES[mix]
    if spec == "special":
        # a model loaded from a previous save: its initializers are backed by the destination file itself
        m0 = build_model("plain", root)
        ir.save(m0, os.path.join(root, "m.onnx"), external_data="m.data", size_threshold_bytes=0)
        m = ir.load(os.path.join(root, "m.onnx"))
        extra = ir.Value(name="fresh", const_value=ir.Tensor(_bytes(300, 77), name="fresh"))
        m.graph.initializers.add(extra)
        return m
    objs = {}
    main_vals, body_vals, deep_vals, deeper_vals = [], [], [], []
    for i, (vname, kind, n, where) in enumerate(spec):
        if kind.startswith("same:"):
            t = objs[kind[5:]]
        else:
            t = mk_tensor(kind, n, i + 1, root)
            t.name = vname
        objs[vname] = t
        v = ir.Value(name=vname, const_value=t)
        if mix == "tensor_names_differ":
            t.name = TENSOR_OWN_NAMES[vname]
        {"main": main_vals, "body": body_vals, "deep": deep_vals, "deeper": deeper_vals}[where].append(v)
    x = ir.Value(name="x", type=ir.TensorType(ir.DataType.BOOL), shape=ir.Shape([]))
    nodes = []
    if body_vals:
        bn = ir.Node("", "Identity", [body_vals[0]], name="bn")
        bn.outputs[0].name = "bo"
        body_nodes = [bn]
        if deep_vals:
            def branch(name, vals, extra_nodes=()):
                nd = ir.Node("", "Identity", [vals[0]], name=f"{name}_n")
                nd.outputs[0].name = f"{name}_o"
                return ir.Graph([], [nd.outputs[0]], nodes=[*extra_nodes, nd], initializers=vals, name=name)

            def cond(name, then_g):
                en2 = ir.Node("", "Identity", [main_vals[0]], name=f"{name}_en")
                en2.outputs[0].name = f"{name}_eo"
                else_g = ir.Graph([], [en2.outputs[0]], nodes=[en2], name=f"{name}_else")
                nd = ir.Node("", "If", [x], [ir.AttrGraph("then_branch", then_g), ir.AttrGraph("else_branch", else_g)], name=name)
                nd.outputs[0].name = f"{name}_y"
                return nd

            inner = []
            if deeper_vals:
                inner = [cond("if_deeper", branch("deeper", deeper_vals))]
            body_nodes.append(cond("if_deep", branch("deep", deep_vals, inner)))
        body = ir.Graph([], [bn.outputs[0]], nodes=body_nodes, initializers=body_vals, name="body")
        body2 = ir.Graph([], [], nodes=[], name="body2")
        e = ir.Node("", "Identity", [body_vals[0]], name="en")  # else-branch reads the then-branch... no: use main value
        del e
        en = ir.Node("", "Identity", [main_vals[0]], name="en")
        en.outputs[0].name = "eo"
        body2.append(en)
        body2.outputs.append(en.outputs[0])
        n = ir.Node("", "If", [x], [ir.AttrGraph("then_branch", body), ir.AttrGraph("else_branch", body2)], name="if")
    else:
        n = ir.Node("", "Identity", [x], name="id")
    n.outputs[0].name = "y"
    nodes.append(n)
    g = ir.Graph([x], [n.outputs[0]], nodes=nodes, initializers=main_vals, name="g", opset_imports={"": 21})
    return ir.Model(g, ir_version=10)


def initializers_of(model):
    out = []
    for g in model.graphs():
        for v in g.initializers.values():
            if v.const_value is not None:
                out.append((g.name, v))
    return out


def content_of(t):
    if isinstance(t, ir.ExternalTensor) and not t.valid():
        return None
    b = bytes(t.tobytes())
    if isinstance(t, ir.ExternalTensor):
        t.release()
    return (int(t.dtype), tuple(t.shape.numpy()), b)


def grid(tier, backend):
    if backend == "safetensors":
        th = (0, 8, 256, 10**6)
        sh = (None, 1, 10, 400, 10**6)
        paths = ("absolute", "relative", "bare") if tier == "thorough" else ("absolute", "bare")
        for t, s, p in itertools.product(th, sh, paths):
            yield dict(size_threshold_bytes=t, max_shard_size_bytes=s), None, p
        return
    th = (0, 8, 256, 10**6)
    al = [(None, None)] + [(a, t) for a in (1, 4096) for t in (0, 100, 10**6)]
    # alignments that are neither a power of two nor (10000) a multiple of the page size, and one below the page size
    al += [(a, t) for a in (64, 10000, 12288) for t in (0, 100, 10**6)] if tier == "thorough" else [(64, 0), (10000, 0), (12288, 100)]
    sh = (None, 1, 10, 400, 6000, 10**6)  # 6000 holds two aligned mid-size tensors per shard
    if tier == "thorough":
        wk = (None, 1, 2, 4)
        dest = ("m.data", "m.fp16.data", "sub/m.data")
        paths = ("absolute", "relative", "bare")
    else:
        wk = (None, 2)
        dest = ("m.data", "sub/m.fp16.data")
        paths = ("absolute", "bare")
    for t, (a, at), s, w, d, p in itertools.product(th, al, sh, wk, dest, paths):
        kw = dict(size_threshold_bytes=t, max_shard_size_bytes=s, max_workers=w)
        if a is not None:
            kw.update(alignment=a, align_threshold=at)
        if tier == "quick" and p == "bare" and (w is not None or a is not None):
            continue  # quick: path spelling crossed with the other options only in their default setting
        yield kw, d, p


def _short_copy_file_range(fd_in, fd_out, count, offset_src=None, offset_dst=None):
    """copy_file_range that, as the system call may, copies fewer bytes than requested (at most 64 per call)."""
    if offset_src is None or offset_dst is None:
        raise OSError(22, "emulation needs explicit offsets")
    buf = os.pread(fd_in, min(count, 64), offset_src)
    os.pwrite(fd_out, buf, offset_dst)
    return len(buf)


def check_save(mix, backend, kw, dest, pathspell, root, short_copy=False):
    saved = getattr(os, "copy_file_range", None)
    if short_copy and saved is not None:
        os.copy_file_range = _short_copy_file_range
    try:
        return _check_save(mix, backend, kw, dest, pathspell, root)
    finally:
        if saved is not None:
            os.copy_file_range = saved


def _check_save(mix, backend, kw, dest, pathspell, root):
    """Returns (outcome, violations)."""
    v = []
    wd = os.path.join(root, "work")
    if os.path.isdir(wd):
        shutil.rmtree(wd)
    os.makedirs(os.path.join(wd, "sub"))
    model = build_model(mix, wd)
    inits = initializers_of(model)
    before_obj = [(val, val.const_value) for _, val in inits]
    want = {}
    for gname, val in inits:
        want[(gname, val.name)] = content_of(val.const_value)
    cwd = os.getcwd()
    try:
        if pathspell == "absolute":
            path = os.path.join(wd, "m.onnx")
        elif pathspell == "relative":
            os.chdir(root)
            path = os.path.join("work", "m.onnx")
        else:
            os.chdir(wd)
            path = "m.onnx"
        preexisting = set(os.listdir(wd))
        try:
            if backend == "raw":
                ir.save(model, path, external_data=dest, **kw)
            else:
                ir.save_safetensors(model, path, **kw)
            exc = None
        except Exception as e:  # noqa: BLE001
            exc = e
        # (5) same tensor objects afterwards, returned or raised
        for val, obj in before_obj:
            if val.const_value is not obj:
                v.append(("model_holds_a_different_tensor_object_after_save", val.name))
                break
        if exc is not None:
            if isinstance(exc, FileExistsError) and kw.get("max_shard_size_bytes") is not None and mix == "resave_in_place":
                return "refused_to_overwrite", v
            v.append(("save_raises", f"{type(exc).__name__}: {exc}"[:200]))
            return "raised", v
        # reload
        try:
            loaded = ir.load(path)
        except Exception as e:  # noqa: BLE001
            v.append(("saved_model_does_not_load", f"{type(e).__name__}: {e}"[:160]))
            return "ok", v
        got = {}
        files: dict[str, list] = {}
        for gname, val in initializers_of(loaded):
            t = val.const_value
            key = (gname, val.name)
            nbytes = t.nbytes
            is_ext = isinstance(t, ir.ExternalTensor)
            try:
                got[key] = content_of(t)
            except Exception as e:  # noqa: BLE001
                v.append(("reloaded_initializer_unreadable", f"{val.name}: {type(e).__name__}: {e}"[:160]))
                continue
            thr = kw["size_threshold_bytes"]
            should = (nbytes > thr) if backend == "raw" else (nbytes >= thr and True)
            if backend == "safetensors" and nbytes == thr:
                should = is_ext  # tie: either reading is accepted
            if is_ext != should:
                v.append(("wrong_side_of_the_threshold", f"{val.name}: nbytes={nbytes} threshold={thr} external={is_ext}"))
            if is_ext:
                files.setdefault(str(t.location), []).append((val.name, t.offset or 0, t.length if t.length is not None else nbytes, nbytes))
        if set(got) != set(want):
            v.append(("initializer_set_changed", (sorted(set(want) - set(got)), sorted(set(got) - set(want)))))
        for key in want:
            if key in got and got[key] != want[key]:
                a, b = want[key], got[key]
                what = "dtype" if a[0] != b[0] else "shape" if a[1] != b[1] else "bytes"
                v.append(("initializer_content_changed", f"{key}: {what} differs"))
        # layout per data file
        base = os.path.dirname(os.path.abspath(path))
        limit = kw.get("max_shard_size_bytes")
        align = kw.get("alignment")
        athr = kw.get("align_threshold", 0)
        for loc, ents in files.items():
            fp = os.path.join(base, loc)
            if not os.path.isfile(fp):
                v.append(("data_file_missing", loc))
                continue
            fsize = os.path.getsize(fp)
            prev_end = 0
            header = 0
            if backend == "safetensors":
                with open(fp, "rb") as f:
                    header = 8 + int.from_bytes(f.read(8), "little")
            if backend == "safetensors":
                ents = sorted(ents, key=lambda e: e[1])  # the order inside a safetensors file is chosen by the safetensors writer
            for i, (nm, off, ln, nb) in enumerate(ents):
                if ln != nb:
                    v.append(("recorded_length_differs_from_nbytes", f"{nm}: {ln} vs {nb}"))
                if off < prev_end and ln > 0:
                    v.append(("ranges_overlap_or_out_of_declaration_order", f"{loc}: {nm} at {off} < {prev_end}"))
                if off + ln > fsize:
                    v.append(("range_outside_file", f"{loc}: {nm} {off}+{ln} > {fsize}"))
                if backend == "raw" and align is not None and nb > athr and off % align != 0:
                    v.append(("alignment_not_honoured", f"{nm}: offset {off} alignment {align}"))
                if backend == "raw" and align is not None and nb > athr and off % max(4096, align) != 0:
                    v.append(("documented_alignment_not_honoured", f"{nm}: offset {off} not a multiple of {max(4096, align)}"))
                prev_end = max(prev_end, off + ln)
            if limit is not None and len(ents) > 1 and (prev_end - header) > limit:
                v.append(("shard_exceeds_limit_with_several_tensors", f"{loc}: {prev_end - header} > {limit} holding {len(ents)}"))
            if backend == "raw" and prev_end != fsize and ents:
                v.append(("data_file_has_trailing_bytes", f"{loc}: {fsize} vs {prev_end}"))
        # every externalised tensor is in exactly one shard: names unique across files by construction of `files`
        names = [nm for ents in files.values() for nm, *_ in ents]
        if len(names) != len(set(names)) and mix != "subgraph":
            v.append(("tensor_in_more_than_one_shard", sorted(n for n in names if names.count(n) > 1)[:3]))
        del preexisting
        return "ok", v
    finally:
        os.chdir(cwd)


FAIL_KINDS = ("model_path_is_directory", "unknown_format", "callback_raises_first", "callback_raises_last", "small_lazy_raises", "big_lazy_raises",
              "callback_raises_BaseException", "existing_shard_file")


class _Stop(BaseException):
    pass


def check_failing_save(mix, backend, kw, fail, root):
    """A save that must raise (at the data write, at a callback, at serialization or when the model file is written):
    afterwards every initializer of the caller's model holds the tensor object it held before.
    Returns (outcome, violations)."""
    v = []
    wd = os.path.join(root, "workf")
    if os.path.isdir(wd):
        shutil.rmtree(wd)
    os.makedirs(os.path.join(wd, "sub"))
    model = build_model(mix, wd)
    kw = dict(kw)
    path = os.path.join(wd, "m.onnx")
    dest = "m.data"
    if fail == "small_lazy_raises":
        def boom():
            raise RuntimeError("small lazy")

        t = ir.LazyTensor(boom, dtype=ir.DataType.UINT8, shape=ir.Shape([3]), name="lz_small")
        model.graph.initializers.add(ir.Value(name="lz_small", const_value=t))
    elif fail == "big_lazy_raises":
        def boom2():
            raise RuntimeError("big lazy")

        t = ir.LazyTensor(boom2, dtype=ir.DataType.UINT8, shape=ir.Shape([3000]), name="lz_big")
        model.graph.initializers.add(ir.Value(name="lz_big", const_value=t))
    elif fail == "model_path_is_directory":
        path = os.path.join(wd, "is_a_directory.onnx")
        os.makedirs(path)
    elif fail == "unknown_format":
        kw["format"] = "no-such-format"
    elif fail.startswith("callback_raises"):
        n_ext = [0]

        def cb(tensor, info):
            n_ext[0] += 1
            if fail == "callback_raises_first" and info.index == 0:
                raise RuntimeError("callback")
            if fail == "callback_raises_last" and info.index == info.total - 1:
                raise RuntimeError("callback")
            if fail == "callback_raises_BaseException" and info.index == 0:
                raise _Stop()

        kw["callback"] = cb
    elif fail == "existing_shard_file":
        # only the raw backend documents that it refuses to overwrite shard files
        if kw.get("max_shard_size_bytes") is None or backend != "raw":
            return "not_applicable", v
    inits = initializers_of(model)
    before_obj = [(val, val.const_value) for _, val in inits]
    before_mem = [(val.name, bytes(val.const_value.tobytes())) for _, val in inits
                  if isinstance(val.const_value, ir.Tensor) and not isinstance(val.const_value, (ir.ExternalTensor, ir.LazyTensor))]
    if fail == "existing_shard_file":
        # put a foreign file where the last shard of a two-or-more shard layout would go (found by a dry run elsewhere)
        probe = os.path.join(root, "probe")
        if os.path.isdir(probe):
            shutil.rmtree(probe)
        os.makedirs(probe)
        try:
            pm = build_model(mix, probe)
            if backend == "raw":
                ir.save(pm, os.path.join(probe, "m.onnx"), external_data=dest, **kw)
            else:
                ir.save_safetensors(pm, os.path.join(probe, "m.onnx"), **kw)
        except Exception:  # noqa: BLE001
            return "not_applicable", v
        shards = sorted(f for f in os.listdir(probe) if "-of-" in f)
        if len(shards) < 2:
            return "not_applicable", v
        with open(os.path.join(wd, shards[-1]), "wb") as f:
            f.write(b"FOREIGN")
    try:
        if backend == "raw":
            ir.save(model, path, external_data=dest, **kw)
        else:
            ir.save_safetensors(model, path, **kw)
        exc = None
    except BaseException as e:  # noqa: BLE001
        exc = e
    if exc is None:
        if fail.startswith("callback_raises") and n_ext[0] == 0:
            return "nothing_externalised", v  # no tensor above the threshold: the callback is never called
        if fail == "small_lazy_raises" and kw.get("size_threshold_bytes", 0) > 3 and False:
            pass
        v.append(("save_expected_to_raise_returned", fail))
        return "returned", v
    for val, obj in before_obj:
        if val.const_value is not obj:
            v.append(("model_holds_a_different_tensor_object_after_failed_save", f"{val.name}: {type(val.const_value).__name__} instead of {type(obj).__name__} ({fail}: {type(exc).__name__})"))
            break
    now = {val.name: val for _, val in initializers_of(model)}
    for name, b in before_mem:
        if name in now and isinstance(now[name].const_value, ir.Tensor) and not isinstance(now[name].const_value, ir.ExternalTensor):
            if bytes(now[name].const_value.tobytes()) != b:
                v.append(("in_memory_tensor_changed_by_failed_save", name))
                break
    if {n for n in now} != {val.name for val, _ in before_obj}:
        v.append(("initializer_set_changed_by_failed_save", sorted(set(now) ^ {val.name for val, _ in before_obj})[:3]))
    return "raised", v


def _fail_grid(tier, backend):
    th = (0, 8, 10**6)
    sh = (None, 400)
    wk = (None, 2) if backend == "raw" else (None,)
    for t, s_, w in itertools.product(th, sh, wk):
        kw = dict(size_threshold_bytes=t, max_shard_size_bytes=s_)
        if backend == "raw":
            kw["max_workers"] = w
        yield kw


def _work(task):
    mix, backend, tier = task
    if mix.startswith("failing:"):
        mix = mix.split(":", 1)[1]
        root = common.scratch_dir("c07f")
        n = 0
        outcomes, found = {}, {}
        try:
            for kw in _fail_grid(tier, backend):
                for fail in FAIL_KINDS:
                    n += 1
                    out, v = check_failing_save(mix, backend, kw, fail, root)
                    outcomes[f"failing:{out}"] = outcomes.get(f"failing:{out}", 0) + 1
                    for clause, detail in v:
                        key = f"{backend}|{clause}|{fail}"
                        found.setdefault(key, {"mix": mix, "backend": backend, "options": dict(kw, **({"callback": "<raising>"} if "callback" in fail else {})), "dest": "m.data", "path": "absolute", "clause": clause, "detail": detail, "short_copy": False, "fail": fail})
        finally:
            shutil.rmtree(root, ignore_errors=True)
        return "failing:" + mix, backend, n, outcomes, found
    root = common.scratch_dir("c07")
    n = 0
    outcomes = {}
    found = {}
    try:
        for kw, dest, p in grid(tier, backend):
            for short in ((False, True) if (backend == "raw" and mix in SHORT_KERNEL_COPY_MIXES) else (False,)):
                n += 1
                out, v = check_save(mix, backend, kw, dest, p, root, short_copy=short)
                outcomes[out] = outcomes.get(out, 0) + 1
                for clause, detail in v:
                    key = f"{backend}|{clause}|{mix}"
                    found.setdefault(key, {"mix": mix, "backend": backend, "options": {k: x for k, x in kw.items()}, "dest": dest, "path": p, "clause": clause, "detail": detail, "short_copy": short})
    finally:
        shutil.rmtree(root, ignore_errors=True)
    return mix, backend, n, outcomes, found


def main(tier):
    r = common.Run("C07", "exploration", tier)
    tasks = [(m, "raw", tier) for m in MIXES] + [(m, "safetensors", tier) for m in MIXES if m != "resave_in_place"]
    tasks += [("failing:" + m, b, tier) for m in MIXES for b in ("raw", "safetensors") if not (m == "resave_in_place" and b == "safetensors")]
    res = common.pmap(_work, tasks, chunksize=1)
    total = 0
    outcomes = {}
    found = {}
    for mix, backend, n, oc, f in res:
        total += n
        for k, x in oc.items():
            outcomes[f"{backend}:{k}"] = outcomes.get(f"{backend}:{k}", 0) + x
        for k, x in f.items():
            found.setdefault(k, x)
    for key, f in sorted(found.items()):
        r.violation(key, f"{f['clause']} [{f['mix']} {f['backend']} {f['options']} dest={f['dest']} path={f['path']}]: {f['detail']}",
                    {"engine": "E6", "input": {k: f.get(k) for k in ("mix", "backend", "options", "dest", "path", "short_copy")}, "oracle": f["clause"], "detail": f["detail"]})
    r.sample({"mix": "kinds", "backend": "raw", "options": {"size_threshold_bytes": 8, "max_shard_size_bytes": 400, "max_workers": 2, "alignment": 4096, "align_threshold": 100}, "dest": "sub/m.fp16.data", "path": "bare"})
    r.sample({"mix": "shared_object", "backend": "safetensors", "options": {"size_threshold_bytes": 256, "max_shard_size_bytes": 10}})
    r.coverage.update({
        "evaluations": total, "distinct_nontrivial": sum(x for k, x in outcomes.items() if k.endswith(":ok")),
        "rule": "a case is one (model mix, backend, option tuple, destination, path spelling) save + reload; non-trivial = saves that completed and were reloaded and checked",
        "exhaustive": True, "outcomes": outcomes, "mixes": list(MIXES), "tier_grid": "full cross product" if tier == "thorough" else "reduced grid (workers {None,2}, 2 destinations, path spelling crossed with default options only)",
    })
    r.assumptions += ["tensor sizes never equal a threshold except where the documentation fixes the comparison (raw: external iff nbytes > threshold; safetensors: iff nbytes >= threshold, ties accepted either way)",
                      "alignment: offsets of tensors larger than align_threshold must be multiples of the requested alignment (and of max(4096, alignment) as documented)",
                      "a sharded re-save whose single shard would overwrite the existing data file is expected to be refused (FileExistsError)"]
    return r.finish()


def replay(obj):
    inp = obj["input"]
    root = common.scratch_dir("c07")
    try:
        out, v = check_save(inp["mix"], inp["backend"], inp["options"], inp["dest"], inp["path"], root, short_copy=bool(inp.get("short_copy")))
    finally:
        shutil.rmtree(root, ignore_errors=True)
    bad = [c for c in v if c[0] == obj["oracle"]]
    return (not bad), v[:4]


_ = json
