"""The C01 alphabet: every enabled public mutation call of a world state, simplest first.

Arguments deliberately include invalid ones (foreign values, produced values,
out-of-range indices, colliding names), and multi-element arguments put every
candidate at every position.
"""

from __future__ import annotations

import itertools

GROUPS = ("io", "init", "nodelist", "edges", "values", "new", "rnv")


def _pairs(xs):
    return [(a, b) for a in xs for b in xs]


def enabled(w, groups=GROUPS, vcap=8, ncap=4, pair_cap=4):
    """Yield op tuples enabled in world w."""
    nV, nN, nG = len(w.values), len(w.nodes), len(w.graphs)
    vals = list(range(min(nV, vcap)))
    # values used in multi-element arguments: the first few (seed-chosen, role-diverse) + the newest
    pv = sorted(set(vals[: pair_cap - 1] + vals[-1:]))
    nodes = list(range(nN))
    pn = nodes[:3]
    ops = []
    if "io" in groups:
        for g in range(nG):
            for which in ("inputs", "outputs"):
                ops += [("io", g, which, "pop"), ("io", g, which, "pop", 0), ("io", g, which, "clear"),
                        ("io", g, which, "delitem", 0), ("io", g, which, "delitem", -1),
                        ("io", g, which, "delslice", (0, 2)), ("io", g, which, "delslice", (1, 9)),
                        ("io", g, which, "reverse"), ("io", g, which, "sort"),
                        ("io", g, which, "imul", 2), ("io", g, which, "imul", 0), ("io", g, which, "copy")]
                for v in vals:
                    ops += [("io", g, which, "append", v), ("io", g, which, "remove", v),
                            ("io", g, which, "setitem", 0, v), ("io", g, which, "setitem", 7, v),
                            ("io", g, which, "insert", 0, v), ("io", g, which, "insert", 9, v),
                            ("io", g, which, "iadd", (v,))]
                for a, b in _pairs(pv):
                    ops += [("io", g, which, "extend", (a, b)), ("io", g, which, "setslice", (0, 1), (a, b)),
                            ("io", g, which, "setslice", (0, 2), (a, b))]
                ops += [("io", g, which, "setslice", (0, 1), ())]
    if "io_lite" in groups:
        for g in range(nG):
            for which in ("inputs", "outputs"):
                ops += [("io", g, which, "pop"), ("io", g, which, "clear"), ("io", g, which, "delitem", 0)]
                for v in vals:
                    ops += [("io", g, which, "append", v), ("io", g, which, "remove", v),
                            ("io", g, which, "setitem", 0, v), ("io", g, which, "insert", 0, v)]
    if "init_lite" in groups:
        for g in range(nG):
            ops += [("init", g, "clear")]
            for v in vals:
                ops += [("init", g, "add", v), ("init", g, "pop", "a"), ("init", g, "pop", "b")]
    if "init" in groups:
        for g in range(nG):
            ops += [("init", g, "popitem"), ("init", g, "clear")]
            for k in ("a", "b", "zz"):
                ops += [("init", g, "delitem", k), ("init", g, "pop", k)]
            ops += [("init", g, "copy_then_edit_the_copy", "a"), ("init", g, "copy_then_edit_the_copy", "b")]
            for v in vals[:3]:
                ops += [("init", g, "ior", v)]
            for v in vals:
                ops += [("init", g, "setitem", "<name>", v), ("init", g, "setitem", "a", v), ("init", g, "setitem", "", v),
                        ("init", g, "add", v), ("init", g, "register", v),
                        ("init", g, "setdefault", "<name>", v), ("init", g, "setdefault", "a", v)]
            for a, b in _pairs(pv):
                ops += [("init", g, "update", (a, b))]
    if "nodelist" in groups:
        for g in range(nG):
            ops += [("g_sort", g)]
            for n in nodes:
                ops += [("g_append", g, n), ("g_remove", g, n, False), ("g_remove", g, n, True)]
                for a in nodes:
                    ops += [("g_insert_before", g, a, n), ("g_insert_after", g, a, n)]
            for a, b in _pairs(pn):
                ops += [("g_extend", g, (a, b))]
                if a != b:
                    ops += [("g_remove", g, (a, b), False), ("g_remove", g, (a, b), True)]
                for anchor in pn:
                    ops += [("g_insert_before", g, anchor, (a, b)), ("g_insert_after", g, anchor, (a, b))]
        for a in nodes:
            for n in nodes:
                ops += [("n_prepend", a, n), ("n_append", a, n)]
    if "edges" in groups:
        for n in nodes:
            for k in (0, 1, 3):
                ops += [("resize_inputs", n, k), ("resize_outputs", n, k)]
            for i in (-1, 0, 1, 5):
                for v in [None] + vals:
                    ops += [("replace_input", n, i, v)]
    if "values" in groups:
        for v in vals:
            for nm in (None, "", "a", "b"):
                ops += [("rename", v, nm)]
            for r in vals:
                for flag in (False, True):
                    ops += [("rauw", v, r, flag)]
        for a, b in _pairs(pv):
            ops += [("rename_values", (a, b), (("nameof", b), ("nameof", a))),  # swap
                    ("rename_values", (a, b), ("a", "a")), ("rename_values", (a, b), ("b", "")),
                    ("rename_values", (a, b), ("zz", "a"))]
            for c, d in _pairs(pv[:3]):
                ops += [("conv_rauw", (a, b), (c, d), True)]
            ops += [("conv_rauw", (a, b), (b, a), False)]
        for n in nodes:
            ops += [("node_rename", n, None), ("node_rename", n, "n0")]
        for v in vals[:2]:
            # shape refinement: unknown + known, a later conflicting dimension, another rank
            ops += [("merge_shapes", v, (None, 3)), ("merge_shapes", v, (2, 4)), ("merge_shapes", v, (2,))]
    if "new" in groups and nN < ncap:
        last = vals[-1] if vals else None
        first = vals[0] if vals else None
        forms = [
            ((), 1, None, None, None),
            ((first,), None, None, None, None),
            ((first, None, first), 2, None, 0, None),
            ((last,), 0, None, 1, "n0"),
            ((first, last), None, (vals[1],) if len(vals) > 1 else (), None, None),  # outputs=[existing value]
            ((), None, (first,), 0, None),  # outputs=[possibly a graph input / produced value]
            ((first,), 2, (last,), None, None),  # inconsistent num_outputs/outputs
            ((last, last), 1, None, 0, "a"),
            ((first,), None, (last,), None, "<bad attribute>"),  # rejected after the inputs and outputs were looked at
            ((first,), 1, None, 0, "<bad attribute>"),
        ]
        for f in forms:
            if any(x is None and i != 1 for i, x in enumerate(f[0])) and not vals:
                continue
            ops.append(("new_node",) + f)
    if "construct" in groups and nG < 3:
        # Graph(...) over existing objects: every single role for every value, role pairs, node lists
        for v in pv:
            ops += [("new_graph", (v,), (), (), ()), ("new_graph", (), (v,), (), ()), ("new_graph", (), (), (), (v,)),
                    ("new_graph", (v,), (v,), (), (v,)), ("new_graph", (v, v), (), (), ())]
        for a, b in _pairs(pv[:3]):
            if a != b:
                ops += [("new_graph", (a,), (b,), (), ()), ("new_graph", (a,), (), (), (b,)), ("new_graph", (), (), (), (a, b))]
        for n in pn:
            ops += [("new_graph", (), (), (n,), ())]
            outs0 = w.nodes[n].outputs
            if len(outs0) and id(outs0[0]) in w._vslot:
                ops += [("new_graph", (), (w._vslot[id(outs0[0])],), (n,), ())]
            for v in pv[:2]:
                ops += [("new_graph", (v,), (), (n,), ()), ("new_graph", (), (), (n,), (v,))]
        for a, b in _pairs(pn):
            if a != b:
                ops += [("new_graph", (), (), (a, b), ())]
        for n in pn[:2]:
            ops += [("new_graph", (), (), (n, n), ())]
    if "rnv" in groups:
        for g in range(nG):
            for a in pn:
                for b in pn:
                    if a == b:
                        continue
                    na, nb = w.nodes[a], w.nodes[b]
                    if len(na.outputs) == 0 or len(nb.outputs) == 0:
                        continue
                    ov = (w._vslot[id(na.outputs[0])],)
                    nv = (w._vslot[id(nb.outputs[0])],)
                    for ip in pn:
                        ops.append(("replace_nodes_and_values", g, ip, (a,), (b,), ov, nv))
    # de-duplicate preserving order
    seen = set()
    out = []
    for o in ops:
        if o not in seen:
            seen.add(o)
            out.append(o)
    return out


def op_signature(op):
    """Abstract an op into its call-site class: slot indices dropped, literals kept."""
    name = op[0]
    if name == "io":
        lit = []
        m = op[3]
        if m in ("pop", "delitem", "imul"):
            lit = list(op[4:])
        elif m in ("setitem", "insert"):
            lit = [op[4]]
        elif m in ("setslice", "delslice"):
            lit = [tuple(op[4])]
            if m == "setslice":
                lit.append(len(op[5]))
        return f"{op[2]}.{m}{lit if lit else ''}"
    if name == "init":
        m = op[2]
        lit = [op[3]] if m in ("setitem", "setdefault", "delitem", "pop") else []
        return f"initializers.{m}{lit if lit else ''}"
    if name in ("g_remove",):
        multi = isinstance(op[2], (list, tuple))
        return f"g_remove[{'list' if multi else 'one'},safe={op[3]}]"
    if name in ("g_extend", "g_insert_before", "g_insert_after", "n_prepend", "n_append"):
        multi = isinstance(op[-1], (list, tuple))
        return f"{name}[{'list' if multi else 'one'}]"
    if name == "replace_input":
        return f"replace_input[i={op[2]},{'None' if op[3] is None else 'v'}]"
    if name in ("resize_inputs", "resize_outputs"):
        return f"{name}[{op[2]}]"
    if name == "rauw":
        return f"rauw[{'self' if op[1] == op[2] else 'other'},{op[3]}]"
    if name == "conv_rauw":
        return f"conv_rauw[{op[3]}]"
    if name == "rename":
        return f"rename[{op[2]!r}]"
    if name == "rename_values":
        return "rename_values[" + ",".join("nameof" if isinstance(x, (list, tuple)) else repr(x) for x in op[2]) + "]"
    if name == "new_graph":
        ins, outs, ns, inits = op[1:]
        return f"new_graph[in={len(ins)},out={len(outs)},nodes={len(ns)},init={len(inits)}]"
    if name == "new_node":
        ins, no, outs, g, nm = op[1:]
        return f"new_node[outputs={'created' if outs is None else 'given'}]"
    return name


_ = itertools
