"""E5: file-system effect interception for onnx_ir.external_data (module globals rebound, no source change).

Every library-visible effect of a save (mkdtemp, open, write, truncate, close, copymode, replace,
remove, rmdir) is numbered by a dry run; a plan then makes effect k fail with an errno, or makes the
(forked) process die immediately before it, or after a proper prefix of a write (torn write).
"""

from __future__ import annotations

import builtins
import errno as _errno
import os as _os
import shutil as _shutil
import tempfile as _tempfile

from onnx_ir import external_data as ed

FAULT_ERRNOS = {
    "mkdtemp": [_errno.ENOSPC, _errno.EACCES],
    "open": [_errno.EACCES, _errno.EMFILE],
    "write": [_errno.ENOSPC, _errno.EIO],
    "truncate": [_errno.ENOSPC],
    "close": [_errno.EIO],
    "copymode": [_errno.EPERM],
    "chmod": [_errno.EPERM],
    "copystat": [_errno.EPERM],
    "copyfile": [_errno.ENOSPC, _errno.EACCES],
    "mkstemp": [_errno.ENOSPC, _errno.EACCES],
    "makedirs": [_errno.EACCES],
    "replace": [_errno.EXDEV, _errno.EACCES],
    "rename": [_errno.EXDEV, _errno.EACCES],
    "link": [_errno.EPERM],
    # cleanup effects (remove / rmdir) are crash points only: making the cleanup itself fail
    # is an environment fault the library cannot be asked to survive
}


class FS:
    def __init__(self, plan=None):
        self.plan = plan  # None | {"k": int, "mode": "fault"|"crash"|"torn", "errno": int}
        self.n = 0
        self.log: list[tuple[str, str]] = []
        self.fired = False

    def effect(self, kind, detail, do, torn=None):
        k = self.n
        self.n += 1
        self.log.append((kind, detail))
        p = self.plan
        if p is not None and p["k"] == k and not self.fired:
            self.fired = True
            if p["mode"] == "crash":
                _os._exit(77)
            if p["mode"] == "torn":
                if torn is not None:
                    torn()
                _os._exit(78)
            if p["mode"] == "fault":
                raise OSError(p["errno"], f"injected {_errno.errorcode.get(p['errno'])} at effect {k} ({kind} {detail})")
        return do()


class _PFile:
    """A file object without fileno(): every byte goes through write()."""

    def __init__(self, fs, real, path):
        self._fs, self._f, self._path = fs, real, path

    def write(self, b):
        b = bytes(b)

        def torn():
            self._f.write(b[: max(1, len(b) // 2)] if len(b) > 1 else b"")
            self._f.flush()

        return self._fs.effect("write", f"{_os.path.basename(self._path)}[{len(b)}]", lambda: self._f.write(b), torn if len(b) > 1 else None)

    def truncate(self, size=None):
        return self._fs.effect("truncate", _os.path.basename(self._path), lambda: self._f.truncate(size))

    def seek(self, *a):
        return self._f.seek(*a)

    def tell(self):
        return self._f.tell()

    def flush(self):
        return self._f.flush()

    def close(self):
        if self._f.closed:
            return None

        def do():
            self._f.close()

        try:
            return self._fs.effect("close", _os.path.basename(self._path), do)
        finally:
            if not self._f.closed:
                # the injected close failure still releases the descriptor (as close(2) does)
                try:
                    self._f.close()
                except OSError:
                    pass

    @property
    def closed(self):
        return self._f.closed

    def __enter__(self):
        return self

    def __exit__(self, *a):
        self.close()
        return False


class _Proxy:
    def __init__(self, real, overrides):
        object.__setattr__(self, "_real", real)
        object.__setattr__(self, "_over", overrides)

    def __getattr__(self, name):
        o = object.__getattribute__(self, "_over")
        if name in o:
            return o[name]
        return getattr(object.__getattribute__(self, "_real"), name)


class Patch:
    """Context manager rebinding os / tempfile / shutil / open inside onnx_ir.external_data."""

    def __init__(self, fs: FS):
        self.fs = fs

    def __enter__(self):
        fs = self.fs
        base = _os.path.basename

        def replace(a, b, **kw):
            return fs.effect("replace", f"{base(str(a))}->{base(str(b))}", lambda: _os.replace(a, b, **kw))

        def remove(a, **kw):
            return fs.effect("remove", base(str(a)), lambda: _os.remove(a, **kw))

        def rmdir(a, **kw):
            return fs.effect("rmdir", "tmpdir", lambda: _os.rmdir(a, **kw))

        def mkdtemp(*a, **kw):
            return fs.effect("mkdtemp", "tmpdir", lambda: _tempfile.mkdtemp(*a, **kw))

        def copymode(a, b, **kw):
            return fs.effect("copymode", base(str(b)), lambda: _shutil.copymode(a, b, **kw))

        def popen(path, mode="r", *a, **kw):
            if "w" in mode or "+" in mode or "a" in mode:
                real = fs.effect("open", f"{base(str(path))}:{mode}", lambda: builtins.open(path, mode, *a, **kw))
                return _PFile(fs, real, str(path))
            return builtins.open(path, mode, *a, **kw)

        def rename(a, b, **kw):
            return fs.effect("rename", f"{base(str(a))}->{base(str(b))}", lambda: _os.rename(a, b, **kw))

        def unlink(a, **kw):
            return fs.effect("remove", base(str(a)), lambda: _os.unlink(a, **kw))

        def chmod(a, mode, **kw):
            return fs.effect("chmod", base(str(a)), lambda: _os.chmod(a, mode, **kw))

        def link(a, b, **kw):
            return fs.effect("link", f"{base(str(a))}->{base(str(b))}", lambda: _os.link(a, b, **kw))

        def makedirs(a, *args, **kw):
            if _os.path.isdir(a):
                return _os.makedirs(a, *args, **kw)
            return fs.effect("makedirs", base(str(a)), lambda: _os.makedirs(a, *args, **kw))

        def mkstemp(*a, **kw):
            return fs.effect("mkstemp", "tmpfile", lambda: _tempfile.mkstemp(*a, **kw))

        def copystat(a, b, **kw):
            return fs.effect("copystat", base(str(b)), lambda: _shutil.copystat(a, b, **kw))

        def _copier(name):
            def f(a, b, **kw):
                return fs.effect("copyfile", f"{base(str(a))}->{base(str(b))}", lambda: getattr(_shutil, name)(a, b, **kw))

            return f

        def move(a, b, **kw):
            return fs.effect("rename", f"{base(str(a))}->{base(str(b))}", lambda: _shutil.move(a, b, **kw))

        def rmtree(a, *args, **kw):
            return fs.effect("rmdir", "tmpdir(tree)", lambda: _shutil.rmtree(a, *args, **kw))

        # a module the library does not import (any more) is simply not rebound
        self.saved = {k: ed.__dict__[k] for k in ("os", "tempfile", "shutil", "open") if k in ed.__dict__}
        if "os" in ed.__dict__:
            ed.os = _Proxy(_os, {"replace": replace, "remove": remove, "rmdir": rmdir, "rename": rename, "unlink": unlink, "chmod": chmod,
                                 "link": link, "makedirs": makedirs})
        if "tempfile" in ed.__dict__:
            ed.tempfile = _Proxy(_tempfile, {"mkdtemp": mkdtemp, "mkstemp": mkstemp})
        if "shutil" in ed.__dict__:
            ed.shutil = _Proxy(_shutil, {"copymode": copymode, "copystat": copystat, "copyfile": _copier("copyfile"), "copy": _copier("copy"),
                                         "copy2": _copier("copy2"), "move": move, "rmtree": rmtree})
        ed.open = popen
        return fs

    def __exit__(self, *a):
        for k in ("os", "tempfile", "shutil"):
            if k in self.saved:
                setattr(ed, k, self.saved[k])
        if "open" in self.saved:
            ed.open = self.saved["open"]
        else:
            ed.__dict__.pop("open", None)
        return False
