"""E4: cooperative scheduler for real threads + stateless DFS with iterative preemption bounding.

Every logical thread is a real OS thread holding a baton (per-thread semaphore); exactly one
runs at a time.  Scheduling points precede every synchronisation operation of the shims
(Lock.acquire, Condition.wait/notify, Future.result, queue take, executor shutdown/join,
thread start/exit) and every explicit `point()` the harness places in its own callbacks /
tensor bodies.  At a point the enabled threads are ordered canonically (running thread first
if still enabled, then ascending id); choice 0 is the default, choice k>0 away from a still
enabled running thread costs one preemption (CHESS).
"""

from __future__ import annotations

import threading as _real_threading
import types

from mc import common


class _Abort(BaseException):
    """Raised inside controlled threads to tear an execution down (deadlock / step budget)."""


class _T:
    __slots__ = ("id", "sem", "blocked", "done", "name", "real", "why")

    def __init__(self, tid, name):
        self.id = tid
        self.sem = _real_threading.Semaphore(0)
        self.blocked = None
        self.done = False
        self.name = name
        self.real = None
        self.why = ""


class Scheduler:
    release_points = False  # set per execution by the harness: lock releases are scheduling points too

    def __init__(self, choices=(), max_steps=4000):
        self.choices = list(choices)
        self.pos = 0
        self.trace: list[tuple[int, int, bool]] = []  # (alternatives, chosen, costs_preemption)
        self.threads: list[_T] = []
        self.current: _T | None = None
        self.abort_reason: str | None = None
        self.steps = 0
        self.max_steps = max_steps
        self.finished = _real_threading.Event()
        self.outcome = None
        self.blocked_waits = 0  # how often a thread actually had to block
        self.events: list = []  # harness-visible log

    # -- choice ---------------------------------------------------------------
    def _choose(self, n: int, preemptive: bool) -> int:
        if n <= 1:
            return 0
        if self.pos < len(self.choices):
            c = self.choices[self.pos]
            if not (0 <= c < n):
                self._abort(f"replay divergence: choice {c} at point {self.pos} but only {n} alternatives")
        else:
            c = 0
        self.pos += 1
        self.trace.append((n, c, preemptive))
        return c

    def choose(self, n: int) -> int:
        """A data choice (e.g. which waiter a notify(1) wakes); never costs a preemption."""
        self._check_abort()
        return self._choose(n, False)

    # -- enabledness -------------------------------------------------------------
    def _enabled(self, t: _T) -> bool:
        if t.done:
            return False
        if t.blocked is None:
            return True
        return bool(t.blocked())

    def _others(self, t: _T):
        return [x for x in self.threads if x is not t and self._enabled(x)]

    # -- baton ---------------------------------------------------------------------
    def _check_abort(self):
        if self.abort_reason is not None:
            raise _Abort()

    def _abort(self, reason: str):
        if self.abort_reason is None:
            self.abort_reason = reason
            for x in self.threads:
                x.sem.release()
        raise _Abort()

    def _switch(self, t: _T, nxt: _T):
        self.current = nxt
        nxt.sem.release()
        t.sem.acquire()
        self._check_abort()

    def point(self, why: str = ""):
        """A scheduling point of the running thread (which stays enabled)."""
        self._check_abort()
        t = self.current
        self.steps += 1
        if self.steps > self.max_steps:
            self._abort(f"step budget {self.max_steps} exceeded (livelock?)")
        others = self._others(t)
        if not others:
            return
        c = self._choose(1 + len(others), True)
        if c:
            self._switch(t, others[c - 1])

    def block(self, pred, why: str = ""):
        """Block the running thread until pred() holds."""
        self._check_abort()
        t = self.current
        first = True
        while not pred():
            if first:
                self.blocked_waits += 1
                first = False
            t.blocked = pred
            t.why = why
            others = self._others(t)
            if not others:
                waiting = [(x.id, x.name, x.why) for x in self.threads if not x.done]
                self._abort(f"deadlock: no enabled thread; waiting={waiting}")
            c = self._choose(len(others), False)
            self._switch(t, others[c])
            t.blocked = None
        t.blocked = None

    # -- threads -----------------------------------------------------------------------
    def spawn(self, fn, name="t"):
        t = _T(len(self.threads), name)
        self.threads.append(t)

        def body():
            t.sem.acquire()
            try:
                self._check_abort()
                fn()
            except _Abort:
                pass
            except BaseException as e:  # noqa: BLE001
                self.events.append(("thread-exception", t.id, repr(e)))
            finally:
                t.done = True
                self._on_exit(t)

        t.real = _real_threading.Thread(target=body, daemon=True, name=f"mc-{name}-{t.id}")
        t.real.start()
        return t

    def _on_exit(self, t: _T):
        if self.abort_reason is not None:
            if all(x.done for x in self.threads):
                self.finished.set()
            return
        others = self._others(t)
        if others:
            c = self._choose(len(others), False)
            nxt = others[c]
            self.current = nxt
            nxt.sem.release()
            return
        if all(x.done for x in self.threads):
            self.finished.set()
            return
        waiting = [(x.id, x.name, x.why) for x in self.threads if not x.done]
        self.abort_reason = f"deadlock at thread exit: waiting={waiting}"
        for x in self.threads:
            x.sem.release()
        if all(x.done for x in self.threads):
            self.finished.set()

    def run(self, main_fn, timeout=60.0):
        """Run main_fn as thread 0 under this scheduler; returns when every thread has ended."""

        def main():
            try:
                self.outcome = ("ret", main_fn(self))
            except _Abort:
                raise
            except BaseException as e:  # noqa: BLE001
                self.outcome = ("exc", e)
            self.main_done_alive = [x.id for x in self.threads if not x.done and x is not self.current]

        t0 = self.spawn(main, "main")
        self.current = t0
        t0.sem.release()
        ok = self.finished.wait(timeout)
        if not ok:
            # real-time hang: something blocked outside the scheduler's control
            self.abort_reason = self.abort_reason or "harness: real-time timeout (uncontrolled blocking)"
            for x in self.threads:
                x.sem.release()
            raise common.HarnessError(f"scheduler execution did not finish: {self.abort_reason}")
        for x in self.threads:
            x.real.join(5.0)
        return self.outcome


# ---------------------------------------------------------------------------
# shims for `threading` and `concurrent.futures`, bound to one scheduler


def make_shims(s: Scheduler):
    class Lock:
        def __init__(self):
            self.owner = None

        def acquire(self, blocking=True, timeout=-1):
            s.point("lock.acquire")
            if self.owner is not None and not blocking:
                return False
            s.block(lambda: self.owner is None, "lock")
            self.owner = s.current
            return True

        def release(self):
            if self.owner is None:
                raise RuntimeError("release unlocked lock")
            self.owner = None
            # the end of a critical section publishes: what the thread does next is no longer protected
            if s.release_points:
                s.point("lock.release")

        def locked(self):
            return self.owner is not None

        def __enter__(self):
            self.acquire()
            return self

        def __exit__(self, *a):
            self.release()

    class RLock(Lock):
        def __init__(self):
            super().__init__()
            self.depth = 0

        def acquire(self, blocking=True, timeout=-1):
            if self.owner is s.current:
                self.depth += 1
                return True
            r = super().acquire(blocking, timeout)
            if r:
                self.depth = 1
            return r

        def release(self):
            self.depth -= 1
            if self.depth == 0:
                super().release()

    class Condition:
        def __init__(self, lock=None):
            self._lock = lock if lock is not None else RLock()
            self._waiters: list = []

        def __enter__(self):
            self._lock.acquire()
            return self

        def __exit__(self, *a):
            self._lock.release()

        def acquire(self, *a):
            return self._lock.acquire(*a)

        def release(self):
            self._lock.release()

        def wait(self, timeout=None):
            me = {"woken": False}
            self._waiters.append(me)
            # full release (also of a re-entrant lock)
            depth = getattr(self._lock, "depth", 1)
            self._lock.owner = None
            if hasattr(self._lock, "depth"):
                self._lock.depth = 0
            s.block(lambda: me["woken"], "condition.wait")
            s.block(lambda: self._lock.owner is None, "condition.reacquire")
            self._lock.owner = s.current
            if hasattr(self._lock, "depth"):
                self._lock.depth = depth
            return True

        def wait_for(self, predicate, timeout=None):
            r = predicate()
            while not r:
                self.wait()
                r = predicate()
            return r

        def notify(self, n=1):
            for _ in range(n):
                if not self._waiters:
                    return
                k = s.choose(len(self._waiters))
                w = self._waiters.pop(k)
                w["woken"] = True

        def notify_all(self):
            for w in self._waiters:
                w["woken"] = True
            self._waiters.clear()

    class Event:
        def __init__(self):
            self._f = False

        def set(self):
            self._f = True

        def is_set(self):
            return self._f

        def wait(self, timeout=None):
            s.point("event.wait")
            s.block(lambda: self._f, "event")
            return True

    class CancelledError(Exception):
        pass

    class Future:
        _seq = [0]

        def __init__(self):
            self.state = "pending"  # pending | running | done | cancelled
            self._result = None
            self._exc = None
            self.order = None

        def cancel(self):
            if self.state in ("running", "done"):
                return False
            self.state = "cancelled"
            Future._seq[0] += 1
            self.order = Future._seq[0]
            return True

        def cancelled(self):
            return self.state == "cancelled"

        def done(self):
            return self.state in ("done", "cancelled")

        def _finish(self, result=None, exc=None):
            self._result, self._exc = result, exc
            self.state = "done"
            Future._seq[0] += 1
            self.order = Future._seq[0]

        def result(self, timeout=None):
            s.point("future.result")
            s.block(self.done, "future.result")
            if self.state == "cancelled":
                raise CancelledError()
            if self._exc is not None:
                raise self._exc
            return self._result

        def exception(self, timeout=None):
            s.point("future.exception")
            s.block(self.done, "future.exception")
            if self.state == "cancelled":
                raise CancelledError()
            return self._exc

    class ThreadPoolExecutor:
        def __init__(self, max_workers=None, thread_name_prefix="", initializer=None, initargs=()):
            self.max_workers = max_workers or 4
            self.queue: list = []
            self.workers: list = []
            self.idle = 0
            self.shut = False

        def submit(self, fn, /, *args, **kwargs):
            if self.shut:
                raise RuntimeError("cannot schedule new futures after shutdown")
            f = Future()
            self.queue.append((f, fn, args, kwargs))
            # stock ThreadPoolExecutor: start a worker unless an idle one can take the item
            if self.idle > 0:
                self.idle -= 1
            elif len(self.workers) < self.max_workers:
                self.workers.append(s.spawn(self._worker, "worker"))
            s.point("executor.submit")
            return f

        def _worker(self):
            while True:
                s.point("worker.take")
                s.block(lambda: bool(self.queue) or self.shut, "worker.idle")
                if not self.queue:
                    return
                f, fn, args, kwargs = self.queue.pop(0)
                if f.state == "cancelled":
                    continue
                f.state = "running"
                try:
                    r = fn(*args, **kwargs)
                except _Abort:
                    raise
                except BaseException as e:  # noqa: BLE001
                    f._finish(exc=e)
                else:
                    f._finish(result=r)
                self.idle += 1 if not self.queue else 0
                del f, fn, args, kwargs

        def shutdown(self, wait=True, *, cancel_futures=False):
            s.point("executor.shutdown")
            self.shut = True
            if cancel_futures:
                while self.queue:
                    f, *_ = self.queue.pop(0)
                    f.cancel()
            if wait:
                for w in list(self.workers):
                    s.point("executor.join")
                    s.block(lambda w=w: w.done, "executor.join")

        def __enter__(self):
            return self

        def __exit__(self, *a):
            self.shutdown(wait=True)
            return False

    def as_completed(fs, timeout=None):
        fs = list(fs)
        yielded: set[int] = set()
        while len(yielded) < len(fs):
            s.point("as_completed")
            s.block(lambda: any(f.done() and id(f) not in yielded for f in fs), "as_completed")
            ready = sorted((f for f in fs if f.done() and id(f) not in yielded), key=lambda f: f.order)
            for f in ready:
                yielded.add(id(f))
                yield f

    def wait(fs, timeout=None, return_when="ALL_COMPLETED"):
        fs = list(fs)
        s.point("futures.wait")
        if return_when == "FIRST_COMPLETED":
            s.block(lambda: any(f.done() for f in fs), "futures.wait")
        elif return_when == "FIRST_EXCEPTION":
            s.block(lambda: all(f.done() for f in fs) or any(f.done() and f._exc is not None for f in fs), "futures.wait")
        else:
            s.block(lambda: all(f.done() for f in fs), "futures.wait")
        done = {f for f in fs if f.done()}
        return types.SimpleNamespace(done=done, not_done=set(fs) - done)

    threading_shim = types.SimpleNamespace(
        Lock=Lock, RLock=RLock, Condition=Condition, Event=Event, local=_real_threading.local,
        current_thread=_real_threading.current_thread, get_ident=_real_threading.get_ident,
    )
    futures_shim = types.SimpleNamespace(
        ThreadPoolExecutor=ThreadPoolExecutor, as_completed=as_completed, Future=Future, wait=wait,
        CancelledError=CancelledError, FIRST_COMPLETED="FIRST_COMPLETED", FIRST_EXCEPTION="FIRST_EXCEPTION",
        ALL_COMPLETED="ALL_COMPLETED",
    )
    concurrent_shim = types.SimpleNamespace(futures=futures_shim)
    return threading_shim, concurrent_shim


# ---------------------------------------------------------------------------
# stateless exploration with iterative preemption bounding


def cost_of(trace, upto=None, mode="preempt"):
    """Deviations taken by an execution: preemptions (switching away from a still enabled
    thread) in mode 'preempt'; every non-default choice in mode 'delay' (delay bounding)."""
    t = trace if upto is None else trace[:upto]
    if mode == "delay":
        return sum(1 for n, c, p in t if c > 0)
    return sum(1 for n, c, p in t if p and c > 0)


def preemptions(trace, upto=None):
    return cost_of(trace, upto, "preempt")


def children(trace, prefix_len, bound, mode="preempt"):
    """Alternative prefixes reachable from this execution without exceeding the deviation bound."""
    out = []
    cost = cost_of(trace, prefix_len, mode)
    choices = [c for _, c, _ in trace]
    for i in range(prefix_len, len(trace)):
        n, c, p = trace[i]
        step = 1 if (p or mode == "delay") else 0
        for alt in range(1, n):
            if cost + step <= bound:
                out.append(choices[:i] + [alt])
        if c > 0:
            cost += step
    return out


def explore(run_one, bound, prefix=(), stats=None, on_exec=None, cap=None, mode="preempt"):
    """DFS below `prefix`. run_one(choices) -> (trace, verdicts). Returns stats dict."""
    stats = stats if stats is not None else {"executions": 0, "points": 0, "max_points": 0, "capped": False}
    stack = [list(prefix)]
    while stack:
        if cap is not None and stats["executions"] >= cap:
            stats["capped"] = True
            break
        p = stack.pop()
        trace, verdict = run_one(p)
        if [c for _, c, _ in trace[: len(p)]] != p[: len(trace)] or len(trace) < len(p):
            raise common.HarnessError(f"replay divergence: prefix {p} produced trace {trace[:len(p) + 2]}")
        stats["executions"] += 1
        stats["points"] += len(trace)
        stats["max_points"] = max(stats["max_points"], len(trace))
        if on_exec:
            on_exec(p, trace, verdict)
        stack.extend(reversed(children(trace, len(p), bound, mode)))
    return stats
