"""Shared plumbing: evidence, known findings, replay files, work sharding."""

from __future__ import annotations

import hashlib
import json
import multiprocessing
import os
import random
import sys
import time
import traceback

HOME = os.environ.get("VERIF_HOME", os.path.dirname(os.path.dirname(os.path.abspath(__file__))))
EVIDENCE_DIR = os.path.join(HOME, "evidence")
REPLAY_DIR = os.path.join(HOME, "replays")
FINDINGS_FILE = os.path.join(HOME, "known_findings.json")
SCHEMA = "/root/.vp/EVIDENCE.schema.json"
NPROC = int(os.environ.get("VERIF_NPROC", "16"))


class HarnessError(Exception):
    """The harness itself misbehaved (non-determinism, bad replay): exit 2, never a VIOLATION."""


def seed() -> int:
    try:
        return int(os.environ.get("VERIF_SEED", "0"))
    except ValueError:
        return 0


def jsonable(x):
    if isinstance(x, (str, int, float, bool)) or x is None:
        return x
    if isinstance(x, bytes):
        return "hex:" + x.hex()
    if isinstance(x, dict):
        return {str(k): jsonable(v) for k, v in x.items()}
    if isinstance(x, (list, tuple, set, frozenset)):
        return [jsonable(v) for v in x]
    return repr(x)


def load_findings():
    try:
        with open(FINDINGS_FILE) as f:
            return json.load(f)["findings"]
    except FileNotFoundError:
        return []


class Run:
    """One execution of one property's check: collects coverage and violations."""

    def __init__(self, pid: str, level: str, tier: str):
        self.pid = pid
        self.level = level
        self.tier = tier
        self.seed = seed()
        self.t0 = time.time()
        self.coverage: dict = {}
        self.assumptions: list[str] = []
        self.samples: list = []
        self.counters: dict[str, int] = {}
        self._known = {
            f["key"]: f for f in load_findings() if f["property"] == pid and f["status"] == "known"
        }
        self._known_hit: dict[str, int] = {}
        self._violations: dict[str, dict] = {}  # key -> first replay obj
        self._violation_count = 0
        self.rng = random.Random(self.seed)

    # -- counting helpers -------------------------------------------------
    def count(self, name: str, n: int = 1):
        self.counters[name] = self.counters.get(name, 0) + n

    def merge_counters(self, d: dict):
        for k, v in d.items():
            self.counters[k] = self.counters.get(k, 0) + v

    def sample(self, x, cap: int = 6):
        """Reservoir-sample cases for the evidence file (seed-dependent, never decides anything)."""
        self._nsample = getattr(self, "_nsample", 0) + 1
        if len(self.samples) < cap:
            self.samples.append(jsonable(x))
        else:
            j = self.rng.randrange(self._nsample)
            if j < cap:
                self.samples[j] = jsonable(x)

    # -- violations -------------------------------------------------------
    def violation(self, key: str, what: str, replay: dict, n: int = 1):
        """Record one violating case. `key` is the normalised signature of the failing
        call site / input (never the whole property)."""
        if key in self._known:
            self._known_hit[key] = self._known_hit.get(key, 0) + n
            return
        self._violation_count += n
        if key not in self._violations:
            replay = dict(replay)
            replay.update({"property": self.pid, "finding_key": key, "what": what})
            self._violations[key] = replay

    def finish(self) -> int:
        wall = time.time() - self.t0
        for key, n in sorted(self._known_hit.items()):
            print(f"KNOWN-FINDING: property={self.pid} {self._known[key]['what']} [key={key}; {n} case(s)]")
        paths = []
        for key, replay in sorted(self._violations.items()):
            h = hashlib.sha1(key.encode()).hexdigest()[:16]
            d = os.path.join(REPLAY_DIR, self.pid)
            os.makedirs(d, exist_ok=True)
            path = os.path.join(d, f"{h}.json")
            with open(path, "w") as f:
                json.dump(jsonable(replay), f, indent=1, sort_keys=True)
            paths.append(path)
            print(f"VIOLATION property={self.pid} replay={path}")
            print(f"  key={key}\n  what={replay.get('what')}")
        cov = dict(self.coverage)
        cov.setdefault("samples", self.samples if self.samples else ["<none>"])
        cov["counters"] = dict(sorted(self.counters.items()))
        cov["known_findings_hit"] = {k: v for k, v in sorted(self._known_hit.items())}
        ev = {
            "property_id": self.pid,
            "tier": self.tier,
            "seed": self.seed,
            "level": self.level,
            "coverage": jsonable(cov),
            "assumptions": self.assumptions,
            "wall_s": round(wall, 3),
            "violations": self._violation_count,
        }
        os.makedirs(EVIDENCE_DIR, exist_ok=True)
        out = os.path.join(EVIDENCE_DIR, f"{self.pid}.json")
        try:
            import jsonschema

            with open(SCHEMA) as f:
                jsonschema.validate(ev, json.load(f))
        except FileNotFoundError:
            pass
        with open(out, "w") as f:
            json.dump(ev, f, indent=1, sort_keys=True)
        brief = {k: v for k, v in cov.items() if isinstance(v, (int, bool))}
        print(f"[{self.pid}] tier={self.tier} seed={self.seed} wall={wall:.1f}s coverage={brief} "
              f"violations={self._violation_count} known={sum(self._known_hit.values())}")
        return 1 if self._violations else 0


# ---------------------------------------------------------------------------
# work sharding


def _worker(args):
    fn, item = args
    try:
        return ("ok", fn(item))
    except HarnessError as e:
        return ("harness", f"{e}\n{traceback.format_exc()}")
    except BaseException as e:  # noqa: BLE001
        return ("harness", f"{type(e).__name__}: {e}\n{traceback.format_exc()}")


def pmap(fn, items, nproc: int | None = None, chunksize: int = 1):
    """Map fn over items in forked worker processes, preserving order.
    Any exception in a worker is a harness error."""
    items = list(items)
    nproc = min(nproc or NPROC, max(1, len(items)))
    if nproc <= 1 or os.environ.get("VERIF_SERIAL"):
        out = []
        for it in items:
            tag, r = _worker((fn, it))
            if tag != "ok":
                raise HarnessError(r)
            out.append(r)
        return out
    ctx = multiprocessing.get_context("fork")
    with ctx.Pool(nproc) as pool:
        res = pool.map(_worker, [(fn, it) for it in items], chunksize=chunksize)
    out = []
    for tag, r in res:
        if tag != "ok":
            raise HarnessError(r)
        out.append(r)
    return out


def pmap_until(fn, items, deadline: float | None, nproc: int | None = None, chunksize: int = 1):
    """Like pmap, but gives up at the wall-clock `deadline` (time.time() value): returns (results, timed_out) where
    results[i] is None for items that were not finished. Used as a safety net only: a timed-out exploration is
    never reported as exhaustive."""
    items = list(items)
    if deadline is None:
        return pmap(fn, items, nproc, chunksize), False
    nproc = min(nproc or NPROC, max(1, len(items)))
    out = [None] * len(items)
    if nproc <= 1 or os.environ.get("VERIF_SERIAL"):
        for i, it in enumerate(items):
            if time.time() > deadline:
                return out, True
            tag, r = _worker((fn, it))
            if tag != "ok":
                raise HarnessError(r)
            out[i] = r
        return out, False
    ctx = multiprocessing.get_context("fork")
    pool = ctx.Pool(nproc)
    timed_out = False
    chunks = [(fn, items[i:i + chunksize]) for i in range(0, len(items), chunksize)]
    try:
        it = pool.imap(_chunk_worker, chunks)
        pos = 0
        for _, chunk in chunks:
            try:
                res = it.next(timeout=max(0.1, deadline - time.time()))
            except multiprocessing.TimeoutError:
                timed_out = True
                break
            for tag, r in res:
                if tag != "ok":
                    raise HarnessError(r)
                out[pos] = r
                pos += 1
    finally:
        pool.terminate()
        pool.join()
    return out, timed_out


def _chunk_worker(args):
    fn, chunk = args
    return [_worker((fn, it)) for it in chunk]


def shuffled(items, salt: str = ""):
    """Seed-dependent permutation of the exploration order (coverage is unchanged)."""
    items = list(items)
    random.Random(f"{seed()}:{salt}").shuffle(items)
    return items


def scratch_dir(tag: str) -> str:
    import tempfile

    base = "/dev/shm" if os.path.isdir("/dev/shm") and os.access("/dev/shm", os.W_OK) else None
    return tempfile.mkdtemp(prefix=f"verif-{tag}-", dir=base)


def eprint(*a):
    print(*a, file=sys.stderr)
