"""E1: explicit-state breadth-first search over the real transition function.

state  := the history that reaches it (seed name + list of op records)
Each transition rebuilds a fresh world by replaying the history (live IR objects cannot be
copied), applies one enabled op, evaluates the monitors and hashes the canonical snapshot of
the successor for de-duplication.  States in which a monitor reported a violation are not
expanded further (everything after a broken state is attributable to the first break).
"""

from __future__ import annotations

import hashlib
import pickle

from mc import common
from mc.alphabet import enabled, op_signature
from mc.invariants import check_links
from mc.snapshot import diff, diff_kinds
from mc.world import replay


def _hash(canon) -> bytes:
    return hashlib.blake2b(pickle.dumps(canon, protocol=4), digest_size=12).digest()


def transition(history, op, want_c06=True):
    """Run one transition on a fresh world. Returns a record dict."""
    w, _ = replay(history)
    before = w.snap()
    rc_before = w.refcounts()
    out = w.apply(op)
    try:
        after = w.snap()
        viol = check_links(w.roots(), w.reg)
    except AttributeError as e:
        # a public accessor of a reachable IR object fails: the call left an object half constructed
        # (e.g. a value whose producer is a Node whose constructor raised before all of its fields were set)
        v = [("reachable_object_left_half_constructed", f"{type(e).__name__}: {e}"[:120])]
        return {"op": op, "out": out, "c01": v, "c06": [("?", "half_constructed_object_reachable", False, True)] if out[0] == "exc" else [],
                "hash": _hash(("half-constructed", repr(op), repr(history)))}
    rec = {"op": op, "out": out}
    rec["c01"] = viol
    if out[0] == "exc" and want_c06:
        # objects created by the failed call itself (e.g. a half-built node) are not
        # "reachable IR objects ... before the call": compare the objects that existed
        d = diff(before, {k: v for k, v in after.items() if k in before})
        missing = [k for k in before if k not in after]
        rec["c06"] = d + [(k, "<presence>", True, False) for k in missing]
        rc_after = w.refcounts()
        for k in rc_before:
            if rc_before[k] != rc_after.get(k):
                rec["c06"].append((k.split(".")[0], "membership_ref_count:" + k.split(".")[1], rc_before[k], rc_after.get(k)))
    else:
        rec["c06"] = []
    rec["hash"] = _hash((tuple(sorted(after.items())), w.hidden()))
    return rec


def _expand(task):
    history, groups, caps = task
    w, _ = replay(history)
    ops = enabled(w, groups=groups, **caps)
    out = []
    for op in ops:
        r = transition(history, op)
        c01_key = None
        if r["c01"]:
            clause = sorted(c for c, _ in r["c01"])[0]
            c01_key = f"{op_signature(op)}|{r['out'][0]}|{clause}"
        c06_key = None
        if r["c06"]:
            # call site + exception type; the changed fields go into the replay detail
            c06_key = f"{op_signature(op)}|{r['out'][1]}"
        out.append((op, r["out"], r["hash"], c01_key, r["c01"][:4], c06_key, r["c06"][:6]))
    return out


class Result:
    def __init__(self):
        self.states = 0
        self.transitions = 0
        self.raising = 0
        self.max_depth = 0
        self.per_op: dict[str, list[int]] = {}
        self.c01: dict[str, tuple] = {}
        self.c06: dict[str, tuple] = {}
        self.c01_count: dict[str, int] = {}
        self.c06_count: dict[str, int] = {}
        self.pruned = 0
        self.exc_types: dict[str, int] = {}
        self.raising_sigs: set = set()
        self.sample_histories: list = []
        self.frontier_exhausted = False
        self.stopped_after_violation = False
        self.timed_out = False


def bfs(seeds, plan, caps=None, sample_rng=None, on_level=None, is_known=None, big_frontier=20000, deadline=None, prune_on=("c01", "c06")) -> Result:
    """plan: list of group tuples, one per depth level (len(plan) == max depth)."""
    caps = caps or {}
    res = Result()
    seen: set[bytes] = set()
    frontier = []
    for s in seeds:
        w, _ = replay((s, []))
        v = check_links(w.roots(), w.reg)
        if v:
            raise common.HarnessError(f"seed {s} violates the invariant: {v}")
        h = _hash(w.canon())
        if h not in seen:
            seen.add(h)
            frontier.append((s, ()))
    res.states = len(seen)
    for depth, groups in enumerate(plan, start=1):
        tasks = [((s, list(ops)), groups, caps) for s, ops in frontier]
        tasks = common.shuffled(tasks, f"bfs{depth}")
        lvl_deadline = deadline
        if deadline is not None and is_known is not None and any(not is_known(k) for k in list(res.c01) + list(res.c06)):
            # an unrecorded violation is already in hand: deeper levels only add instances, give them two minutes
            import time as _time

            lvl_deadline = min(deadline, _time.time() + 120)
        results, timed_out = common.pmap_until(_expand, tasks, lvl_deadline, chunksize=max(1, len(tasks) // (common.NPROC * 64)))
        if timed_out:
            res.timed_out = True
        nxt = []
        for (hist, _, _), recs in zip(tasks, results):
            if recs is None:
                continue
            for op, out, h, c01_key, c01, c06_key, c06 in recs:
                res.transitions += 1
                po = res.per_op.setdefault(op[0] if op[0] not in ("io", "init") else f"{op[0]}.{op[3] if op[0] == 'io' else op[2]}", [0, 0])
                if out[0] == "exc":
                    res.raising += 1
                    po[1] += 1
                    res.exc_types[out[1]] = res.exc_types.get(out[1], 0) + 1
                    res.raising_sigs.add((op_signature(op), out[1]))
                else:
                    po[0] += 1
                bad = False
                newhist = (hist[0], tuple(hist[1]) + (op,))
                if c01_key:
                    bad = bad or "c01" in prune_on
                    res.c01_count[c01_key] = res.c01_count.get(c01_key, 0) + 1
                    if c01_key not in res.c01:
                        res.c01[c01_key] = (newhist, out, c01)
                if c06_key:
                    bad = bad or "c06" in prune_on
                    res.c06_count[c06_key] = res.c06_count.get(c06_key, 0) + 1
                    if c06_key not in res.c06:
                        res.c06[c06_key] = (newhist, out, c06)
                if h in seen:
                    continue
                seen.add(h)
                if bad:
                    res.pruned += 1
                    continue
                nxt.append(newhist)
                if sample_rng is not None and sample_rng.random() < 0.0005 and len(res.sample_histories) < 8:
                    res.sample_histories.append({"history": newhist, "outcome": out})
        res.max_depth = depth
        frontier = nxt
        res.states = len(seen)
        if on_level:
            on_level(depth, res, len(frontier))
        if res.timed_out:
            break
        if not frontier:
            res.frontier_exhausted = True
            break
        # A defect in the ownership bookkeeping can make the hidden state differ for every history, so that
        # de-duplication stops working and the frontier explodes.  Once a violation that is not a recorded finding
        # has been seen there is nothing to gain from wading through such a frontier: report what was found.
        if is_known is not None and len(frontier) > big_frontier and any(not is_known(k) for k in list(res.c01) + list(res.c06)):
            res.stopped_after_violation = True
            break
    return res
