"""gen_graphs — small-scope exhaustive generator of checker-valid models (C05 / C14 / C18).

All values are float tensors of shape [2] (Split halves are [1]; scalars broadcast), inputs x
(float[2]) and c (bool[]), initializers w1 == w2 (duplicate bytes) and w3.  A model is a sequence
of node forms; every input wiring among the visible values and every admissible choice of graph
outputs is enumerated.  Forms: Add/Mul/Sub, Neg/Relu/Identity/Abs/Cast/Clip (optional inputs),
Dropout (optional output), Split (two outputs), Constant in three float forms and the int form,
If with then/else bodies capturing outer values (incl. a body initializer), calls of model-local
functions with an attribute parameter (given / default / nested call).
"""

from __future__ import annotations

import itertools

import numpy as np
import onnx
from onnx import TensorProto as TP
from onnx import helper
import onnx.numpy_helper  # noqa: F401

OPSET = 21


def _vi(name, dt=TP.FLOAT, shape=(2,)):
    return helper.make_tensor_value_info(name, dt, list(shape) if shape is not None else None)


def _const_tensor(name, vals):
    return helper.make_tensor(name, TP.FLOAT, [len(vals)], vals)


ALT_DEFAULTS = False  # set by make_model(alt_defaults=True): the same functions with other attribute defaults


def functions():
    """Model-local functions: Scale(x; alpha=2.0) = x * alpha ; Twice(x) = Scale(x, alpha=3) + x ; NoDef(x; beta) = x * beta (no default)."""
    fs = []
    ref = onnx.AttributeProto(name="value_float", type=onnx.AttributeProto.FLOAT, ref_attr_name="alpha")
    n1 = helper.make_node("Constant", [], ["fc"], name="scale_c")
    n1.attribute.add().CopyFrom(ref)
    n2 = helper.make_node("Mul", ["fx", "fc"], ["fo"], name="scale_mul")
    f = helper.make_function("local", "Scale", ["fx"], ["fo"], [n1, n2], [helper.make_opsetid("", OPSET)], attributes=[],
                             attribute_protos=[helper.make_attribute("alpha", 5.0 if ALT_DEFAULTS else 2.0)])
    fs.append(f)
    c1 = helper.make_node("Scale", ["tx"], ["t1"], name="twice_call", domain="local", alpha=3.0)
    c2 = helper.make_node("Add", ["t1", "tx"], ["to"], name="twice_add")
    fs.append(helper.make_function("local", "Twice", ["tx"], ["to"], [c1, c2], [helper.make_opsetid("", OPSET), helper.make_opsetid("local", 1)]))
    ref2 = onnx.AttributeProto(name="value_float", type=onnx.AttributeProto.FLOAT, ref_attr_name="beta")
    m1 = helper.make_node("Constant", [], ["nc"], name="nodef_c")
    m1.attribute.add().CopyFrom(ref2)
    m2 = helper.make_node("Mul", ["nx", "nc"], ["no"], name="nodef_mul")
    fs.append(helper.make_function("local", "NoDef", ["nx"], ["no"], [m1, m2], [helper.make_opsetid("", OPSET)], attributes=["beta"]))
    b1 = helper.make_node("Binarizer", ["bx"], ["bo"], name="bin_n", domain="ai.onnx.ml", threshold=0.5)
    fs.append(helper.make_function("local", "Bin", ["bx"], ["bo"], [b1], [helper.make_opsetid("", OPSET), helper.make_opsetid("ai.onnx.ml", 3)]))
    # Fwd(gx; gamma=4.0) = Scale(gx, alpha=@gamma): an attribute parameter forwarded under another name
    fref = onnx.AttributeProto(name="alpha", type=onnx.AttributeProto.FLOAT, ref_attr_name="gamma")
    g1 = helper.make_node("Scale", ["gx"], ["go"], name="fwd_call", domain="local")
    g1.attribute.add().CopyFrom(fref)
    fs.append(helper.make_function("local", "Fwd", ["gx"], ["go"], [g1], [helper.make_opsetid("", OPSET), helper.make_opsetid("local", 1)], attributes=[],
                                   attribute_protos=[helper.make_attribute("gamma", 0.5 if ALT_DEFAULTS else 4.0)]))
    # CondFn(cx, cc) = If(cc) {Scale(cx, alpha=0.5)} else {cx + cw}: a call and an initializer reachable only
    # through a control-flow body that lives inside a function
    tb = onnx.GraphProto(name="cond_then")
    tb.node.append(helper.make_node("Scale", ["cx"], ["cond_then_o"], name="cond_then_n", domain="local", alpha=0.5))
    tb.output.append(_vi("cond_then_o", TP.FLOAT, None))
    eb = onnx.GraphProto(name="cond_else")
    eb.initializer.append(_const_tensor("cond_w", [1.0, 2.0]))
    eb.node.append(helper.make_node("Add", ["cx", "cond_w"], ["cond_else_o"], name="cond_else_n"))
    eb.output.append(_vi("cond_else_o", TP.FLOAT, None))
    ci = helper.make_node("If", ["cc"], ["co"], name="cond_if", then_branch=tb, else_branch=eb)
    fs.append(helper.make_function("local", "CondFn", ["cx", "cc"], ["co"], [ci], [helper.make_opsetid("", OPSET), helper.make_opsetid("local", 1)]))
    # Bias(ax) = ax + [1, -2]: a literal (non-reference) Constant at the top level of a function body
    k1 = helper.make_node("Constant", [], ["bias_c"], name="bias_const", value_floats=[1.0, -2.0])
    k2 = helper.make_node("Add", ["ax", "bias_c"], ["ao"], name="bias_add")
    fs.append(helper.make_function("local", "Bias", ["ax"], ["ao"], [k1, k2], [helper.make_opsetid("", OPSET)]))
    return {"Scale": fs[0], "Twice": fs[1], "NoDef": fs[2], "Bin": fs[3], "Fwd": fs[4], "CondFn": fs[5], "Bias": fs[6]}


FORMS_0IN = [("ConstT",), ("ConstF",), ("ConstFs",), ("ConstI",)]
FORMS_1IN = ["Neg", "Relu", "Identity", "Abs", "CastF", "Clip", "Dropout1", "Dropout2", "Split2", "CallScale", "CallScaleDefault", "CallTwice", "CallNoDef", "CallBin", "CallFwd", "CallFwdDefault", "CallCond", "CallBias"]
FORMS_2IN_COMM = ["Add", "Mul"]
FORMS_2IN = ["Sub"]
IF_FORMS = [("id", "neg"), ("add", "id"), ("idid", "const"), ("init", "id"), ("call", "id"), ("nested", "id")]


def out_classes(form, cls):
    """Shape class of the float outputs of a form: 's' scalar, 'v1' [1], 'v2' [2]."""
    kind = form[0]
    rank = {"s": 0, "v1": 1, "v2": 2}
    if kind in ("ConstT", "ConstFs"):
        return ["v2"]
    if kind == "ConstF":
        return ["s"]
    if kind == "ConstI":
        return []
    if kind == "CastI":
        return ["s"]
    if kind == "Split2":
        return ["v1", "v1"]
    if kind in ("ClipMin", "ClipMax"):
        return [cls[form[1]]]
    if kind in ("Add", "Mul", "Sub"):
        a, b = cls[form[1]], cls[form[2]]
        return [a if rank[a] >= rank[b] else b]
    if kind == "CallCond":
        return [cls[form[1]] if cls[form[1]] == "v2" else None]  # both branches of CondFn must agree in rank
    if kind == "If":
        _, tt, et, cap = form
        c = cls[cap]

        def body(t):
            if t in ("add", "init"):
                return "v2"
            if t == "const":
                return "v2"
            if t == "nested":
                return None  # neg -> c, add -> v2: rank may differ between branches
            return c

        bt, be = body(tt), body(et)
        if bt is None or be is None or bt != be:
            return [None]  # branches of different rank: not generated
        return [bt]
    return [cls[form[1]]]


def node_forms(float_vals, int_vals, cls=None, reduced=False):
    """All node forms over the visible values. A form is a tuple (kind, *input refs)."""
    out = []
    for f in FORMS_0IN:
        out.append(f)
    for a in float_vals:
        for k in FORMS_1IN:
            if k == "Split2" and cls is not None and cls.get(a) != "v2":
                continue
            out.append((k, a))
    for a in int_vals:
        out.append(("CastI", a))
    for k in FORMS_2IN_COMM:
        for i, a in enumerate(float_vals):
            for b in float_vals[i:]:
                out.append((k, a, b))
    for a in float_vals:
        for b in float_vals:
            out.append(("Sub", a, b))
    for tf in IF_FORMS:
        for a in float_vals:
            out.append(("If",) + tf + (a,))
    return out


def build_body(tpl, cap, prefix, other):
    """A branch body capturing the outer value `cap` (and `other` for the two-input template)."""
    g = onnx.GraphProto(name=prefix)
    o = f"{prefix}_o"
    if tpl == "id":
        g.node.append(helper.make_node("Identity", [cap], [o], name=f"{prefix}_n"))
    elif tpl == "neg":
        g.node.append(helper.make_node("Neg", [cap], [o], name=f"{prefix}_n"))
    elif tpl == "add":
        g.node.append(helper.make_node("Add", [cap, other], [o], name=f"{prefix}_n"))
    elif tpl == "idid":
        g.node.append(helper.make_node("Identity", [cap], [f"{prefix}_t"], name=f"{prefix}_n0"))
        g.node.append(helper.make_node("Identity", [f"{prefix}_t"], [o], name=f"{prefix}_n1"))
    elif tpl == "const":
        g.node.append(helper.make_node("Constant", [], [o], name=f"{prefix}_n", value_floats=[4.0, 5.0]))
    elif tpl == "init":
        g.initializer.append(_const_tensor(f"{prefix}_w", [1.0, 2.0]))  # same bytes as w1/w2
        g.node.append(helper.make_node("Add", [cap, f"{prefix}_w"], [o], name=f"{prefix}_n"))
    elif tpl == "call":
        g.node.append(helper.make_node("Scale", [cap], [o], name=f"{prefix}_n", domain="local", alpha=0.5))
    elif tpl == "nested":
        inner_then = build_body("neg", cap, f"{prefix}_it", other)
        inner_else = build_body("add", cap, f"{prefix}_ie", other)
        g.node.append(helper.make_node("If", ["c"], [o], name=f"{prefix}_n", then_branch=inner_then, else_branch=inner_else))
    else:
        raise KeyError(tpl)
    g.output.append(_vi(o, TP.FLOAT, None))
    return g


def make_node(form, idx):
    """Returns (node protos, float outputs, int outputs, functions used)."""
    kind = form[0]
    nm = f"n{idx}"
    o = f"v{idx}"
    used = set()
    if kind == "ConstT":
        return [helper.make_node("Constant", [], [o], name=nm, value=_const_tensor("", [1.0, 2.0]))], [o], [], used
    if kind == "ConstF":
        return [helper.make_node("Constant", [], [o], name=nm, value_float=1.5)], [o], [], used
    if kind == "ConstFs":
        return [helper.make_node("Constant", [], [o], name=nm, value_floats=[1.0, 2.0])], [o], [], used
    if kind == "ConstI":
        return [helper.make_node("Constant", [], [o], name=nm, value_int=3)], [], [o], used
    if kind == "CastI":
        return [helper.make_node("Cast", [form[1]], [o], name=nm, to=TP.FLOAT)], [o], [], used
    if kind in ("Neg", "Relu", "Identity", "Abs"):
        return [helper.make_node(kind, [form[1]], [o], name=nm)], [o], [], used
    if kind == "CastF":
        return [helper.make_node("Cast", [form[1]], [o], name=nm, to=TP.FLOAT)], [o], [], used
    if kind == "Clip":
        return [helper.make_node("Clip", [form[1], "", ""], [o], name=nm)], [o], [], used
    if kind == "Dropout1":
        return [helper.make_node("Dropout", [form[1]], [o], name=nm)], [o], [], used
    if kind == "Dropout2":
        return [helper.make_node("Dropout", [form[1], "", ""], [o, f"{o}_mask"], name=nm)], [o], [], used
    if kind == "Split2":
        if OPSET >= 18:
            return [helper.make_node("Split", [form[1]], [o, f"{o}_b"], name=nm, num_outputs=2, axis=0)], [o, f"{o}_b"], [], used
        return [helper.make_node("Split", [form[1]], [o, f"{o}_b"], name=nm, axis=0)], [o, f"{o}_b"], [], used
    if kind == "CallScale":
        return [helper.make_node("Scale", [form[1]], [o], name=nm, domain="local", alpha=0.5)], [o], [], {"Scale"}
    if kind == "CallScaleDefault":
        return [helper.make_node("Scale", [form[1]], [o], name=nm, domain="local")], [o], [], {"Scale"}
    if kind == "CallTwice":
        return [helper.make_node("Twice", [form[1]], [o], name=nm, domain="local")], [o], [], {"Twice", "Scale"}
    if kind == "CallNoDef":
        return [helper.make_node("NoDef", [form[1]], [o], name=nm, domain="local", beta=-1.0)], [o], [], {"NoDef"}
    if kind == "CallBin":
        return [helper.make_node("Bin", [form[1]], [o], name=nm, domain="local")], [o], [], {"Bin"}
    if kind == "CallFwd":
        return [helper.make_node("Fwd", [form[1]], [o], name=nm, domain="local", gamma=0.25)], [o], [], {"Fwd", "Scale"}
    if kind == "CallFwdDefault":
        return [helper.make_node("Fwd", [form[1]], [o], name=nm, domain="local")], [o], [], {"Fwd", "Scale"}
    if kind == "CallCond":
        return [helper.make_node("CondFn", [form[1], "c"], [o], name=nm, domain="local")], [o], [], {"CondFn", "Scale"}
    if kind == "CallBias":
        return [helper.make_node("Bias", [form[1]], [o], name=nm, domain="local")], [o], [], {"Bias"}
    if kind == "ClipMin":
        return [helper.make_node("Clip", [form[1], form[2]], [o], name=nm)], [o], [], used
    if kind == "ClipMax":
        return [helper.make_node("Clip", [form[1], "", form[2]], [o], name=nm)], [o], [], used
    if kind in ("Add", "Mul", "Sub"):
        return [helper.make_node(kind, [form[1], form[2]], [o], name=nm)], [o], [], used
    if kind == "If":
        _, tt, et, cap = form
        if "call" in (tt, et):
            used.add("Scale")
        tb = build_body(tt, cap, f"{nm}_then", "w3")
        eb = build_body(et, cap, f"{nm}_else", "w3")
        return [helper.make_node("If", ["c"], [o], name=nm, then_branch=tb, else_branch=eb)], [o], [], used
    raise KeyError(kind)


def make_model(forms, outputs, extra_unused_function=False, opset=None, alt_defaults=False):
    global OPSET, ALT_DEFAULTS
    saved_opset, saved_alt = OPSET, ALT_DEFAULTS
    if opset is not None:
        OPSET = opset
    ALT_DEFAULTS = alt_defaults
    try:
        return _make_model(forms, outputs, extra_unused_function)
    finally:
        OPSET, ALT_DEFAULTS = saved_opset, saved_alt


def _make_model(forms, outputs, extra_unused_function=False):
    g = onnx.GraphProto(name="main")
    g.input.extend([_vi("x"), _vi("c", TP.BOOL, ())])
    g.initializer.extend([_const_tensor("w1", [1.0, 2.0]), _const_tensor("w2", [1.0, 2.0]), _const_tensor("w3", [0.5, -1.0])])
    used = set()
    for i, f in enumerate(forms):
        ns, _, _, u = make_node(f, i)
        g.node.extend(ns)
        used |= u
    fns = functions()
    if extra_unused_function:
        used.add("NoDef")
    opsets = [helper.make_opsetid("", OPSET)] + ([helper.make_opsetid("local", 1)] if used else []) + [helper.make_opsetid("unused.domain", 1)]
    for o in outputs:
        g.output.append(_vi(o, TP.FLOAT, None))
    # documentation / metadata carriers (for the metadata-clearing pass and the modified flag)
    for i, nd in enumerate(g.node):
        if i % 2 == 0:
            nd.doc_string = f"doc of {nd.name}"
        else:
            e = nd.metadata_props.add()
            e.key, e.value = "origin", nd.name
    if len(g.node) > 1:
        g.doc_string = "main graph doc"
    m = helper.make_model(g, opset_imports=opsets, ir_version=10, functions=[fns[k] for k in ("Scale", "Twice", "NoDef", "Bin", "Fwd", "CondFn", "Bias") if k in used])
    # the checker wants a shape on main-graph outputs: take the rank from one evaluation, dims symbolic
    from mc import evalproto

    res = evalproto.run(m, feeds_for(m)[0])
    for o, arr in zip(m.graph.output, res):
        o.type.tensor_type.shape.SetInParent()
        for ax in range(np.asarray(arr).ndim):
            o.type.tensor_type.shape.dim.add().dim_param = f"{o.name}_d{ax}"
    return m


def gen_models(n_nodes, reduced_second=True):
    """Yield (descriptor, ModelProto) for every sequence of n_nodes forms and every output choice."""
    base_f = ["x", "w1", "w2"]
    cls0 = {"x": "v2", "w1": "v2", "w2": "v2", "w3": "v2"}

    def rec(prefix, fvals, ivals, cls=None):
        cls = cls0 if cls is None else cls
        k = len(prefix)
        if k == n_nodes:
            outs_f = [v for v in fvals if v not in base_f]
            if not outs_f:
                return
            last = outs_f[-1]
            choices = [(last,)]
            for other in outs_f[:-1]:
                choices.append((other, last))
            if n_nodes == 1:
                choices.append((last, last)) if False else None
            for ch in choices:
                yield (tuple(prefix), ch)
            return
        forms = node_forms(fvals, ivals, cls)
        if k >= 1 and reduced_second:
            prev_out = {v for v in fvals + ivals if v not in base_f}
            prev_kinds = {f[0] for f in prefix}
            forms = [f for f in forms if any(isinstance(a, str) and a in prev_out for a in f[1:]) or (f[0] in prev_kinds and f[0] not in ("If",)) or f in prefix]
        for f in forms:
            _, fo, io, _ = make_node(f, k)
            oc = out_classes(f, cls)
            if None in oc:
                continue
            c2 = dict(cls)
            c2.update(dict(zip(fo, oc)))
            yield from rec(prefix + [f], fvals + fo, ivals + io, c2)

    for forms, outs in rec([], list(base_f), []):
        yield (forms, outs)


def gen_dup_family():
    """[constant, f(..), g(..)]: two nodes of the same or mirrored operator over the same operands (optional inputs
    omitted at different positions, swapped operands) - the shapes a sub-expression eliminator must tell apart."""
    for c in (("ConstF",), ("ConstFs",)):
        second = []
        for a in ("x", "w1"):
            second += [("ClipMin", a, "v0"), ("ClipMax", a, "v0"), ("Sub", a, "v0"), ("Sub", "v0", a), ("Add", a, "v0"), ("Mul", a, "v0"), ("Clip", a)]
        for f in second:
            for g in second:
                yield ((c, f, g), ("v1", "v2"))


def gen_order_family():
    """[f(..), u(v0), f(..)] with outputs (v1, v2): a duplicate whose first occurrence has a consumer placed
    between the two occurrences and only the later occurrence is a graph output."""
    firsts = [("Add", "x", "x"), ("Add", "x", "w1"), ("Mul", "x", "w3"), ("Neg", "x"), ("Sub", "x", "w1"), ("CallScale", "x"), ("ConstFs",)]
    for f in firsts:
        for u in ("Relu", "Neg", "Identity"):
            for outs in (("v1", "v2"), ("v2", "v1"), ("v1", "v0", "v2")):
                yield ((f, (u, "v0"), f), outs)
        for b in (("Add", "v0", "x"), ("Sub", "w1", "v0")):
            yield ((f, b, f), ("v1", "v2"))


def _rename_value(m, old, new):
    """Rename a main-graph value consistently (node inputs/outputs at every nesting depth, graph outputs)."""
    def in_graph(g):
        for n in g.node:
            for i in range(len(n.input)):
                if n.input[i] == old:
                    n.input[i] = new
            for i in range(len(n.output)):
                if n.output[i] == old:
                    n.output[i] = new
            for a in n.attribute:
                if a.type == onnx.AttributeProto.GRAPH:
                    in_graph(a.g)
                for sg in a.graphs:
                    in_graph(sg)
        for o in g.output:
            if o.name == old:
                o.name = new
    in_graph(m.graph)


def gen_nameclash_family():
    """Models whose main-graph values carry exactly the names that the values of a called function's body have, and
    the suffixed names a renamer would derive from them: [u(x) -> A, u'(x) -> B, Call(A) -> C, Add(C, B)] with (A, B)
    ranging over all ordered pairs of the name pool of the callee, plus the variant with two calls."""
    pools = {
        "CallScale": ["fc", "fo", "fc_2", "fo_2", "fc_3"],
        "CallTwice": ["t1", "to", "t1_2", "fc", "fo", "fc_2", "fo_2"],
        "CallCond": ["cond_then_o", "cond_else_o", "cond_then_o_2", "cond_else_o_2", "cond_w"],
    }
    for call, pool in pools.items():
        shapes = [
            ((("Neg", "x"), ("Relu", "x"), (call, "v0"), ("Add", "v2", "v1")), ("v3",)),
            ((("Neg", "x"), ("Relu", "x"), (call, "v0"), (call, "v1"), ("Add", "v2", "v3"), ("Sub", "v4", "v1")), ("v5", "v0")),
        ]
        for a in pool:
            for b in pool:
                if a == b:
                    continue
                for k, (forms, outs) in enumerate(shapes):
                    m = make_model(forms, outs)
                    _rename_value(m, "v0", a)
                    _rename_value(m, "v1", b)
                    yield (f"nameclash:{call}:{a}:{b}:{k}", m)


def special_models():
    """Hand-written seeds for constructs outside the grammar: BatchNormalization in training mode with unused
    running statistics, an Identity between a graph input and a graph output, an output listed twice."""
    out = []
    g = onnx.GraphProto(name="main")
    g.input.extend([helper.make_tensor_value_info("x", TP.FLOAT, [1, 2, 1]), _vi("c", TP.BOOL, ())])
    for nm, vals in (("scale", [1.0, 2.0]), ("bias", [0.0, 1.0]), ("mean", [0.5, -0.5]), ("var", [1.0, 4.0])):
        g.initializer.append(_const_tensor(nm, vals))
    g.node.append(helper.make_node("BatchNormalization", ["x", "scale", "bias", "mean", "var"], ["y", "rm", "rv"], name="bn", training_mode=1))
    g.output.append(helper.make_tensor_value_info("y", TP.FLOAT, [1, 2, 1]))
    out.append(("bn_training_unused_stats", helper.make_model(g, opset_imports=[helper.make_opsetid("", OPSET)], ir_version=10)))
    for used_out, label in (("rm", "bn_training_running_mean_used"), ("rv", "bn_training_running_var_used")):
        gb = onnx.GraphProto(name="main")
        gb.input.extend([helper.make_tensor_value_info("x", TP.FLOAT, [1, 2, 1]), _vi("c", TP.BOOL, ())])
        for nm, vals in (("scale", [1.0, 2.0]), ("bias", [0.0, 1.0]), ("mean", [0.5, -0.5]), ("var", [1.0, 4.0])):
            gb.initializer.append(_const_tensor(nm, vals))
        gb.node.append(helper.make_node("BatchNormalization", ["x", "scale", "bias", "mean", "var"], ["y", "rm", "rv"], name="bn", training_mode=1))
        gb.node.append(helper.make_node("Neg", [used_out], ["stat"], name="use_stat"))
        gb.output.append(helper.make_tensor_value_info("y", TP.FLOAT, [1, 2, 1]))
        gb.output.append(helper.make_tensor_value_info("stat", TP.FLOAT, [2]))
        out.append((label, helper.make_model(gb, opset_imports=[helper.make_opsetid("", OPSET)], ir_version=10)))
    # two large initializers (> 128 KiB each) of equal dtype/shape that agree on a long head and tail and differ
    # at one position: at the start, in the middle, at the end
    n_big = 40000
    for where, pos in (("start", 0), ("middle", n_big // 2), ("end", n_big - 1)):
        gl = onnx.GraphProto(name="main")
        gl.input.extend([_vi("x"), _vi("c", TP.BOOL, ())])
        a = np.arange(n_big, dtype=np.float32) % 7
        b = a.copy()
        b[pos] += 1.0
        gl.initializer.append(onnx.numpy_helper.from_array(a, "big_a"))
        gl.initializer.append(onnx.numpy_helper.from_array(b, "big_b"))
        gl.node.append(helper.make_node("Sub", ["big_b", "big_a"], ["diff"], name="sub_big"))
        gl.output.append(helper.make_tensor_value_info("diff", TP.FLOAT, [n_big]))
        out.append((f"large_initializers_differ_at_{where}", helper.make_model(gl, opset_imports=[helper.make_opsetid("", OPSET)], ir_version=10)))
    # an Identity the eliminator must keep (graph input -> graph output) whose two sides are annotated differently
    for in_shape, out_shape, label in ((["N"], [2], "output_more_specific"), ([2], ["N"], "input_more_specific"), (["N"], ["K"], "different_symbols")):
        gi = onnx.GraphProto(name="main")
        gi.input.extend([helper.make_tensor_value_info("x", TP.FLOAT, in_shape), _vi("c", TP.BOOL, ())])
        gi.node.append(helper.make_node("Identity", ["x"], ["y"], name="keep_id"))
        gi.node.append(helper.make_node("Neg", ["x"], ["z"], name="neg"))
        gi.output.extend([helper.make_tensor_value_info("y", TP.FLOAT, out_shape), helper.make_tensor_value_info("z", TP.FLOAT, ["M"])])
        out.append((f"kept_identity_{label}", helper.make_model(gi, opset_imports=[helper.make_opsetid("", OPSET)], ir_version=10)))
    # an If whose branches return a captured outer value through an Identity (kept), branch outputs typed with a shape
    gb = onnx.GraphProto(name="main")
    gb.input.extend([helper.make_tensor_value_info("x", TP.FLOAT, ["K"]), _vi("c", TP.BOOL, ())])
    tb = onnx.GraphProto(name="tb")
    tb.node.append(helper.make_node("Identity", ["x"], ["tb_o"], name="tb_id"))
    tb.output.append(helper.make_tensor_value_info("tb_o", TP.FLOAT, [2]))
    eb = onnx.GraphProto(name="eb")
    eb.node.append(helper.make_node("Neg", ["x"], ["eb_o"], name="eb_neg"))
    eb.output.append(helper.make_tensor_value_info("eb_o", TP.FLOAT, [2]))
    gb.node.append(helper.make_node("If", ["c"], ["r"], name="if_keep", then_branch=tb, else_branch=eb))
    gb.output.append(helper.make_tensor_value_info("r", TP.FLOAT, ["R"]))
    out.append(("kept_identity_in_branch_over_captured_value", helper.make_model(gb, opset_imports=[helper.make_opsetid("", OPSET)], ir_version=10)))
    # a control-flow body that returns one value at two output positions (main graph and inside a function body)
    for where in ("main", "function"):
        tb2 = onnx.GraphProto(name="then_twice")
        tb2.node.append(helper.make_node("Neg", ["x" if where == "main" else "dx"], ["tw"], name="tw_neg"))
        tb2.output.extend([_vi("tw", TP.FLOAT, None), _vi("tw", TP.FLOAT, None)])
        eb2 = onnx.GraphProto(name="else_two")
        eb2.node.append(helper.make_node("Relu", ["x" if where == "main" else "dx"], ["e_a"], name="e_relu"))
        eb2.node.append(helper.make_node("Abs", ["x" if where == "main" else "dx"], ["e_b"], name="e_abs"))
        eb2.output.extend([_vi("e_a", TP.FLOAT, None), _vi("e_b", TP.FLOAT, None)])
        gd = onnx.GraphProto(name="main")
        gd.input.extend([_vi("x"), _vi("c", TP.BOOL, ())])
        fns = []
        if where == "main":
            gd.node.append(helper.make_node("If", ["c"], ["p", "q"], name="if_twice", then_branch=tb2, else_branch=eb2))
        else:
            inner_if = helper.make_node("If", ["dc"], ["dp", "dq"], name="d_if_twice", then_branch=tb2, else_branch=eb2)
            fns.append(helper.make_function("local", "Dup", ["dx", "dc"], ["dp", "dq"], [inner_if], [helper.make_opsetid("", OPSET)]))
            gd.node.append(helper.make_node("Dup", ["x", "c"], ["p", "q"], name="call_dup", domain="local"))
        gd.node.append(helper.make_node("Sub", ["p", "q"], ["pq"], name="sub_pq"))
        gd.output.append(_vi("pq", TP.FLOAT, (2,)))
        out.append((f"body_returns_one_value_twice[{where}]", helper.make_model(gd, opset_imports=[helper.make_opsetid("", OPSET)] + ([helper.make_opsetid("local", 1)] if fns else []), ir_version=10, functions=fns)))
    # only a branch body is out of order (the main graph is sorted)
    gu = onnx.GraphProto(name="main")
    gu.input.extend([_vi("x"), _vi("c", TP.BOOL, ())])
    tbu = onnx.GraphProto(name="then_unsorted")
    tbu.node.append(helper.make_node("Neg", ["tu1"], ["tu2"], name="tu_neg"))
    tbu.node.append(helper.make_node("Relu", ["x"], ["tu1"], name="tu_relu"))
    tbu.output.append(_vi("tu2", TP.FLOAT, None))
    ebu = onnx.GraphProto(name="else_sorted")
    ebu.node.append(helper.make_node("Identity", ["x"], ["eu1"], name="eu_id"))
    ebu.output.append(_vi("eu1", TP.FLOAT, None))
    gu.node.append(helper.make_node("If", ["c"], ["yu"], name="if_unsorted_branch", then_branch=tbu, else_branch=ebu))
    gu.output.append(_vi("yu", TP.FLOAT, (2,)))
    out.append(("only_a_branch_body_is_unsorted", helper.make_model(gu, opset_imports=[helper.make_opsetid("", OPSET)], ir_version=10)))
    # two identical nodes with optional outputs, each consumer set using a different subset of them (every pattern
    # of which of Mean / InvStdDev the first and the second node's consumers use)
    for use_a in (("y",), ("inv",), ("mean",), ("mean", "inv")):
        for use_b in (("mean",), ("inv",), ("mean", "inv"), ("y", "mean")):
            gl2 = onnx.GraphProto(name="main")
            gl2.input.extend([helper.make_tensor_value_info("x", TP.FLOAT, [1, 2]), _vi("c", TP.BOOL, ())])
            gl2.initializer.append(_const_tensor("ln_scale", [1.0, 2.0]))
            gl2.node.append(helper.make_node("LayerNormalization", ["x", "ln_scale"], ["a_y", "a_mean", "a_inv"], name="ln_a"))
            gl2.node.append(helper.make_node("LayerNormalization", ["x", "ln_scale"], ["b_y", "b_mean", "b_inv"], name="ln_b"))
            terms = [f"a_{u}" for u in use_a] + [f"b_{u}" for u in use_b]
            acc = None
            for k, tname in enumerate(terms):
                r1 = f"r_{k}"
                gl2.node.append(helper.make_node("ReduceSumLike", [tname], [r1], name=f"red_{k}", domain="") if False else helper.make_node("Neg", [tname], [r1], name=f"neg_{k}"))
                if acc is None:
                    acc = r1
                else:
                    gl2.node.append(helper.make_node("Add", [acc, r1], [f"s_{k}"], name=f"add_{k}"))
                    acc = f"s_{k}"
            gl2.output.append(helper.make_tensor_value_info(acc, TP.FLOAT, None))
            gl2.output[0].type.tensor_type.shape.dim.add().dim_param = "d0"
            gl2.output[0].type.tensor_type.shape.dim.add().dim_param = "d1"
            out.append((f"identical_nodes_optional_outputs[{'+'.join(use_a)}|{'+'.join(use_b)}]", helper.make_model(gl2, opset_imports=[helper.make_opsetid("", OPSET)], ir_version=10)))
    # an initializer that is also a graph input (an overridable default) next to an ordinary initializer with the same
    # bytes, in both declaration orders: callers may feed the former, never the latter
    for order in (("ov", "k"), ("k", "ov")):
        go = onnx.GraphProto(name="main")
        go.input.extend([_vi("x"), _vi("c", TP.BOOL, ()), _vi("ov")])
        for nm in order:
            go.initializer.append(_const_tensor(nm, [1.0, 2.0]))
        go.node.append(helper.make_node("Mul", ["x", "ov"], ["scaled"], name="use_overridable"))
        go.node.append(helper.make_node("Add", ["scaled", "k"], ["y"], name="use_constant"))
        go.output.append(_vi("y", TP.FLOAT, (2,)))
        out.append((f"overridable_initializer_and_identical_constant[{order[0]}_first]", helper.make_model(go, opset_imports=[helper.make_opsetid("", OPSET)], ir_version=10)))
    out.extend(corner_models())
    out.extend(annotated_optional_output_models())
    g2 = onnx.GraphProto(name="main")
    g2.input.extend([_vi("x"), _vi("c", TP.BOOL, ())])
    g2.node.append(helper.make_node("Identity", ["x"], ["y"], name="id"))
    g2.node.append(helper.make_node("Identity", ["y"], ["z"], name="id2"))
    g2.output.extend([_vi("y", TP.FLOAT, (2,)), _vi("z", TP.FLOAT, (2,))])
    out.append(("identity_chain_between_input_and_outputs", helper.make_model(g2, opset_imports=[helper.make_opsetid("", OPSET)], ir_version=10)))
    return out


def _model(g, fns=(), extra_opsets=()):
    return helper.make_model(g, opset_imports=[helper.make_opsetid("", OPSET)] + list(extra_opsets), ir_version=10, functions=list(fns))


def annotated_optional_output_models():
    """IR 11 models in which an optional output that nothing uses carries a sharding annotation (C14: a pass must
    keep the model serialisable)."""
    out = []
    for op, label in (("BatchNormalization", "bn"), ("LayerNormalization", "ln")):
        g = onnx.GraphProto(name="main")
        g.input.extend([helper.make_tensor_value_info("x", TP.FLOAT, [1, 2, 1] if op == "BatchNormalization" else [1, 2]), _vi("c", TP.BOOL, ())])
        if op == "BatchNormalization":
            for nm, vals in (("scale", [1.0, 2.0]), ("bias", [0.0, 1.0]), ("mean", [0.5, -0.5]), ("var", [1.0, 4.0])):
                g.initializer.append(_const_tensor(nm, vals))
            n = helper.make_node(op, ["x", "scale", "bias", "mean", "var"], ["y", "o1", "o2"], name="norm", training_mode=1)
        else:
            g.initializer.append(_const_tensor("ln_scale", [1.0, 2.0]))
            n = helper.make_node(op, ["x", "ln_scale"], ["y", "o1", "o2"], name="norm")
        dc = n.device_configurations.add()
        dc.configuration_id = "mesh"
        sp = dc.sharding_spec.add()
        sp.tensor_name = "o1"
        sd = sp.sharded_dim.add()
        sd.axis = 0
        ss = sd.simple_sharding.add()
        ss.num_shards = 2
        g.node.append(n)
        g.output.append(helper.make_tensor_value_info("y", TP.FLOAT, [1, 2, 1] if op == "BatchNormalization" else [1, 2]))
        m = helper.make_model(g, opset_imports=[helper.make_opsetid("", OPSET)], ir_version=11)
        c = m.configuration.add()
        c.name, c.num_devices = "mesh", 2
        out.append((f"unused_optional_output_is_sharded[{label}]", m))
    return out


def corner_models():
    """Valid models around corners of single passes: constants that differ only in the sign of zero, attribute kinds
    a pass has to hash or copy (TYPE_PROTO, non-ASCII strings), names that meet only after a pass has moved
    something across a scope boundary, a duplicate that is returned at two positions."""
    out = []
    # constants equal under == but not bitwise: x / (+0.0) and x / (-0.0) differ
    for form in ("value_float", "value_floats", "value", "initializer"):
        g = onnx.GraphProto(name="main")
        g.input.extend([_vi("x"), _vi("c", TP.BOOL, ())])
        for nm, z in (("zp", 0.0), ("zn", -0.0)):
            if form == "value_float":
                g.node.append(helper.make_node("Constant", [], [nm], name=f"k_{nm}", value_float=z))
            elif form == "value_floats":
                g.node.append(helper.make_node("Constant", [], [nm], name=f"k_{nm}", value_floats=[z, z]))
            elif form == "value":
                g.node.append(helper.make_node("Constant", [], [nm], name=f"k_{nm}", value=onnx.numpy_helper.from_array(np.array([z, z], dtype=np.float32), "")))
            else:
                g.initializer.append(onnx.numpy_helper.from_array(np.array([z, z], dtype=np.float32), nm))
        g.node.append(helper.make_node("Div", ["x", "zp"], ["dp"], name="div_p"))
        g.node.append(helper.make_node("Div", ["x", "zn"], ["dn"], name="div_n"))
        g.output.extend([_vi("dp", TP.FLOAT, (2,)), _vi("dn", TP.FLOAT, (2,))])
        out.append((f"signed_zero_constants[{form}]", _model(g)))
    # a duplicate node whose output is returned at two graph-output positions
    g = onnx.GraphProto(name="main")
    g.input.extend([_vi("x"), _vi("c", TP.BOOL, ())])
    g.node.append(helper.make_node("Neg", ["x"], ["a"], name="neg_a"))
    g.node.append(helper.make_node("Neg", ["x"], ["b"], name="neg_b"))
    g.node.append(helper.make_node("Relu", ["a"], ["ra"], name="use_a"))
    g.output.extend([_vi("ra", TP.FLOAT, (2,)), _vi("b", TP.FLOAT, (2,)), _vi("b", TP.FLOAT, (2,))])
    out.append(("duplicate_returned_at_two_positions", _model(g)))
    # OutputFix has to invent names: the names it would pick are already taken
    g = onnx.GraphProto(name="main")
    g.input.extend([_vi("x"), _vi("c", TP.BOOL, ())])
    g.node.append(helper.make_node("Neg", ["x"], ["x_alias_0"], name="n0"))
    g.node.append(helper.make_node("Abs", ["x"], ["x_alias_1"], name="n1"))
    g.node.append(helper.make_node("Relu", ["x"], ["x_orig"], name="n2"))
    g.output.extend([_vi("x", TP.FLOAT, (2,)), _vi("x", TP.FLOAT, (2,)), _vi("x_alias_0", TP.FLOAT, (2,)), _vi("x_alias_1", TP.FLOAT, (2,)), _vi("x_orig", TP.FLOAT, (2,))])
    out.append(("input_returned_twice_next_to_alias_names", _model(g)))
    g = onnx.GraphProto(name="main")
    g.input.extend([_vi("x"), _vi("c", TP.BOOL, ())])
    g.node.append(helper.make_node("Neg", ["x"], ["y"], name="n0"))
    g.node.append(helper.make_node("Abs", ["x"], ["y_alias_1"], name="n1"))
    g.node.append(helper.make_node("Relu", ["y"], ["y_orig"], name="n2"))
    g.output.extend([_vi("y", TP.FLOAT, (2,)), _vi("y", TP.FLOAT, (2,)), _vi("y_alias_1", TP.FLOAT, (2,)), _vi("y_orig", TP.FLOAT, (2,))])
    out.append(("value_returned_twice_next_to_alias_names", _model(g)))
    # an initializer of one branch and a node output (or a different initializer) of the sibling branch share a name
    for sibling in ("node_output", "other_initializer", "main_later_node"):
        g = onnx.GraphProto(name="main")
        g.input.extend([_vi("x"), _vi("c", TP.BOOL, ())])
        tb = onnx.GraphProto(name="tb")
        tb.initializer.append(_const_tensor("w", [1.0, 2.0]))
        tb.node.append(helper.make_node("Add", ["x", "w"], ["t_o"], name="t_add"))
        tb.output.append(_vi("t_o", TP.FLOAT, None))
        eb = onnx.GraphProto(name="eb")
        if sibling == "node_output":
            eb.node.append(helper.make_node("Neg", ["x"], ["w"], name="e_neg"))
            eb.node.append(helper.make_node("Relu", ["w"], ["e_o"], name="e_relu"))
        elif sibling == "other_initializer":
            eb.initializer.append(_const_tensor("w", [5.0, -7.0]))
            eb.node.append(helper.make_node("Mul", ["x", "w"], ["e_o"], name="e_mul"))
        else:
            eb.node.append(helper.make_node("Abs", ["x"], ["e_o"], name="e_abs"))
        eb.output.append(_vi("e_o", TP.FLOAT, None))
        g.node.append(helper.make_node("If", ["c"], ["r"], name="if_w", then_branch=tb, else_branch=eb))
        if sibling == "main_later_node":
            g.node.append(helper.make_node("Neg", ["r"], ["w"], name="late_w"))
            g.output.append(_vi("w", TP.FLOAT, (2,)))
        else:
            g.output.append(_vi("r", TP.FLOAT, (2,)))
        out.append((f"branch_initializer_name_meets_sibling[{sibling}]", _model(g)))
    # a function's internal name is also used inside a branch of a LATER node of the caller
    for inner_name in ("st", "so"):
        g = onnx.GraphProto(name="main")
        g.input.extend([_vi("x"), _vi("c", TP.BOOL, ())])
        f = helper.make_function("local", "Chain", ["sx"], ["so"], [helper.make_node("Neg", ["sx"], ["st"], name="f_neg"), helper.make_node("Relu", ["st"], ["so"], name="f_relu")], [helper.make_opsetid("", OPSET)])
        g.node.append(helper.make_node("Chain", ["x"], ["called"], name="call_chain", domain="local"))
        tb = onnx.GraphProto(name="tb")
        tb.node.append(helper.make_node("Abs", ["x"], [inner_name], name="t_abs"))
        tb.node.append(helper.make_node("Add", [inner_name, "called"], ["t_o"], name="t_add"))
        tb.output.append(_vi("t_o", TP.FLOAT, None))
        eb = onnx.GraphProto(name="eb")
        eb.node.append(helper.make_node("Identity", ["called"], ["e_o"], name="e_id"))
        eb.output.append(_vi("e_o", TP.FLOAT, None))
        g.node.append(helper.make_node("If", ["c"], ["r"], name="if_later", then_branch=tb, else_branch=eb))
        g.output.append(_vi("r", TP.FLOAT, (2,)))
        out.append((f"function_internal_name_used_in_later_branch[{inner_name}]", _model(g, [f], [helper.make_opsetid("local", 1)])))
    # two Identities of one value, both returned (eliminating them leaves one value at two output positions)
    g = onnx.GraphProto(name="main")
    g.input.extend([_vi("x"), _vi("c", TP.BOOL, ())])
    g.node.append(helper.make_node("Relu", ["x"], ["u"], name="relu"))
    g.node.append(helper.make_node("Identity", ["u"], ["y1"], name="id1"))
    g.node.append(helper.make_node("Identity", ["u"], ["y2"], name="id2"))
    g.output.extend([_vi("y1", TP.FLOAT, (2,)), _vi("y2", TP.FLOAT, (2,))])
    out.append(("two_identities_of_one_value_returned", _model(g)))
    # attribute kinds a pass must be able to compare, hash and copy
    tp = helper.make_tensor_type_proto(TP.FLOAT, [2])
    g = onnx.GraphProto(name="main")
    g.input.extend([_vi("x"), _vi("c", TP.BOOL, ())])
    for k in ("a", "b"):
        n = helper.make_node("Typed", ["x"], [f"ty_{k}"], name=f"typed_{k}", domain="custom.corner")
        n.attribute.append(helper.make_attribute("ty", tp))
        n.attribute.append(helper.make_attribute("tys", [tp, tp]))
        g.node.append(n)
    g.output.extend([_vi("ty_a", TP.FLOAT, (2,)), _vi("ty_b", TP.FLOAT, (2,))])
    out.append(("noeval:type_proto_attributes_on_identical_nodes", _model(g, extra_opsets=[helper.make_opsetid("custom.corner", 1)])))
    for text in ("caf\u00e9", "\u65e5\u672c"):
        g = onnx.GraphProto(name="main")
        g.input.extend([_vi("x"), _vi("c", TP.BOOL, ())])
        g.node.append(helper.make_node("Constant", [], ["s"], name="k_s", value_string=text))
        g.node.append(helper.make_node("Constant", [], ["ss"], name="k_ss", value_strings=[text, "plain"]))
        g.node.append(helper.make_node("Neg", ["x"], ["y"], name="neg"))
        g.node.append(helper.make_node("Identity", ["s"], ["s_o"], name="id_s"))
        g.node.append(helper.make_node("Identity", ["ss"], ["ss_o"], name="id_ss"))
        g.output.extend([_vi("y", TP.FLOAT, (2,)), _vi("s_o", TP.STRING, ()), _vi("ss_o", TP.STRING, (2,))])
        out.append((f"noeval:non_ascii_string_constant[{text.encode('unicode_escape').decode()}]", _model(g)))
    return out


INPUT_VECTORS = [np.array(v, dtype=np.float32) for v in ([-2.0, 0.0], [1.0, 3.0], [0.0, 0.0], [3.0, -2.0])]


def feeds_for(model):
    inits = {t.name for t in model.graph.initializer}
    # symbolic / unknown dims are fed with the length of the input vectors
    shapes = {i.name: [d.dim_value or 2 for d in i.type.tensor_type.shape.dim] for i in model.graph.input if i.name not in inits}
    overridable = [i.name for i in model.graph.input if i.name in inits]
    out = []
    for xv in INPUT_VECTORS:
        for cv in (True, False):
            f = {}
            if overridable and cv:
                # the caller overrides the default value of an initializer that is also a graph input
                for nm in overridable:
                    f[nm] = np.array([7.0, -3.0], dtype=np.float32)
            for nm, shp in shapes.items():
                if nm == "c":
                    f[nm] = np.array(cv)
                else:
                    f[nm] = xv.reshape(shp) if shp else xv
            out.append(f)
    return out


_ = itertools
