"""Regenerates MANIFEST.json from the table below (keeps it valid at all times)."""
import json
import os

HOME = os.path.dirname(os.path.dirname(os.path.abspath(__file__)))

CHECKS = {
    "C01": dict(level="model_checking", engine="E1-bfs", design="4/C01",
                technique="explicit-state BFS over all edit histories of the real API (history replay, canonical-snapshot dedup), link invariant in every state",
                text="Every history of public mutation calls (valid and invalid arguments) up to the stated depth from five seed worlds is executed on the real classes; both directions of every use-def/ownership relation are evaluated after every transition, returned or raised. Exhaustive within the alphabet and depth, nothing sampled.",
                note="Trusts CPython and the harness (world interpreter, snapshot, invariant evaluator). Bounds: <=2 graphs, <=4 nodes, <=8 values, depth 2 (quick) / 3-4 on sub-alphabets (thorough)."),
    "C06": dict(level="model_checking", engine="E1-bfs", design="4/C06",
                technique="explicit-state BFS over edit histories; before/after public snapshot comparison on every raising transition",
                text="Same exploration as C01; for every transition whose public call raises, the complete public snapshot of every object that existed before the call is compared with the snapshot after it. Multi-element arguments carry the rejected element at every position.",
                note="Trusts the snapshot function to cover every public accessor (listed in DESIGN 2/E2). Same bounds as C01."),
    "C09": dict(level="model_checking", engine="E4-sched", design="4/C09",
                technique="stateless exploration of all thread schedules of the real writer/budget code under a cooperative scheduler, iterative deviation bounding (delay bound and CHESS preemption bound)",
                text="The real _write_external_tensors/_ExternalDataWriter/_ByteBudget code runs on real threads under a baton scheduler that owns every lock/condition/future/executor operation (module globals threading/concurrent rebound to shims) plus harness points inside tensor materialisation and callbacks. Every schedule within the deviation bound is executed to completion per configuration (oversized tensors, shared tensor object, sharding with serial and parallel inner writers, failing tensor/callback) and checked for termination, byte-identical files, exactly-once non-overlapping callbacks, one-at-a-time evaluation of a shared tensor, the memory bound, and clean failure propagation.",
                note="Atomicity between scheduling points is assumed (GIL granularity); the executor shim models stock ThreadPoolExecutor semantics. Bounds per configuration are listed in the evidence."),
    "C11": dict(level="model_checking", engine="E1-seq", design="4/C11",
                technique="exhaustive enumeration of all interleavings of iterator steps and edits up to a depth on the real linked list / graph iterators, trace monitors from the statement + plain-list reference for the sequence protocol",
                text="Every event sequence (iterator steps of up to two simultaneous forward/reverse/recursive iterators interleaved with append/extend/insert_before/insert_after/remove/move/sort on current, earlier, later, removed and foreign nodes) up to the depth bound, after 0-3 warm-up steps, is executed on the real classes; after every event len/index/negative index/membership/iteration/reversed are compared with a plain Python list, and at the end every iterator is drained and judged by monitors taken literally from the statement (termination, membership at yield time, untouched nodes exactly once in order, inserted-after/before rule, resume-after-removal rule, iterator independence).",
                note="Position-dependent rules are judged only where the statement is unambiguous (documented in the evidence assumptions). Depth 3 (quick) / 4 (thorough) beyond the warm-up."),
    "C12": dict(level="exploration", engine="E6-enum", design="4/C12",
                technique="small-scope exhaustive enumeration of graph structures (all wirings incl. cycles x all initial permutations x two object creation orders) against a networkx dependency reference",
                text="Every wiring of up to 3 (quick) / 4 (thorough) nodes with optional, repeated and multi-output inputs, with nested bodies (one and two levels) capturing values of enclosing graphs, in every initial permutation, is sorted through Graph.sort, Function.sort and TopologicalSortPass; the result must be a linear extension of the reference dependency relation per graph, keep membership, leave valid orders untouched, be idempotent and independent of object creation order; cyclic instances must raise ValueError and leave every order unchanged.",
                note="Trusts networkx for acyclicity; the generator excludes outer nodes using inner values (not valid ONNX scoping)."),
    "C16": dict(level="exploration", engine="E6-enum", design="4/C16",
                technique="exhaustive enumeration of expression trees x integer bindings against exact Fraction arithmetic; exhaustive enumeration of token strings of the documented grammar against Python's arithmetic grammar",
                text="Every expression tree up to depth 2 (plus rounding operators on top of every depth-2 rational expression; depth 3 over a reduced operator set in thorough) built through the real operator overloads, with int or symbolic operands on either side, is evaluated under every binding of a small positive domain, completely and partially in both orders, directly, after simplify(), after re-parsing its printed form and after a dim_param serde round trip, and compared with exact fractions.Fraction arithmetic. Every token string up to 6 (7) tokens that the documented grammar derives is parsed and compared with the standard arithmetic meaning (Python's grammar evaluated over Fractions).",
                note="Trusts fractions/math and the Python parser as references. Positive integer bindings only; powers compared for small exponents."),
    "C04": dict(level="exploration", engine="E6-enum", design="4/C04",
                technique="exhaustive enumeration of dtype x shape x bit-pattern fill x representation x destination against an independent packed little-endian reference and the ONNX codec",
                text="All 25 element types (+STRING) x 9 shapes (scalar, empty, odd counts, high rank, zero-sized dim) x bit-pattern fills (every pattern of every <=8-bit type at every position parity, every 16-bit pattern, boundary/non-finite sets for wider types) are pushed through every representation (array-backed incl. non-contiguous/strided/raw-carrier/array-protocol-only/dlpack-only, packed, proto-backed via raw_data and via the typed field, external at 5 offset/tail/length combinations, lazy, ir.tensor, serde round trip, torch adapter incl. views into larger storage) and 6 tofile destinations; dtype/shape/size/nbytes, element bit patterns from numpy(), tobytes() and every tofile() landing are compared with an independent reference encoding, cross-validated by onnx.numpy_helper.",
                note="Little-endian host; ml_dtypes containers are trusted as bit containers; NaN-payload fills are skipped for float_data/double_data."),
    "C08": dict(level="fault_enumeration", engine="E5-fsfault", design="4/C08",
                technique="exhaustive crash-point / fault enumeration over the intercepted file-system effects of the real save path (dry run numbers the effects; every index x {errno class, crash-before, torn write})",
                text="For each history (fresh/existing/symlinked destination, in-place re-save of a loaded model with multi-chunk streaming, threshold mixes, external source from another file, lazy tensor or callback raising RuntimeError/KeyboardInterrupt/SystemExit/BaseException, sharded saves with neighbours and name collisions) every library-visible file-system effect of ir.save is tried as an injected OSError (per errno class), as process death before the effect (forked child) and, for writes, as a torn write. After an exception: every pre-existing file byte- and mode-identical, no staging file/dir left, external tensors valid and readable, model holds the same tensor objects. After death: every pre-existing data file holds exactly its old bytes or exactly the complete new bytes.",
                note="POSIX rename atomicity and page-cache survival of process death assumed; effects intercepted at library-call granularity; serial writer (the concurrent failure path is C09)."),
    "C02": dict(level="exploration", engine="E6-enum", design="4/C02",
                technique="small-scope exhaustive enumeration of protos (complete leaf families + baseline model with every single and every pair of feature deviations), field-by-field comparison up to the documented normalisations, fixpoint of the second round trip",
                text="Leaf families are enumerated completely (TensorProto: 25 dtypes x storage fields x dims x doc/metadata/external entries; TypeProto/ValueInfoProto: tensor/sparse/sequence/optional nested to depth 3 x element types x shape variants x denotations at every level; AttributeProto: every kind except sparse x default/non-default payload x doc x reference form) through the dedicated serde functions; composite models are a baseline plus every single and every pair of 22 feature deviations (domains, opset imports, model fields, metadata on every carrier, initializer/input/output aliasing, value-info variants, quantization annotations, all attribute kinds, If bodies capturing values declared before/after use, nested bodies with initializers, functions with attributes/overloads/value-info, unsorted nodes, missing/duplicate node names, storage mixes, nested types, device configurations, optional I/O) over IR versions 3..13. Each proto is round-tripped twice and compared with a path-level diff after a normaliser that implements only the normalisations the property lists.",
                note="Supported feature set only (no sparse attributes/initializers, map types, training_info, segments); the normaliser is part of the trusted base."),
    "C17": dict(level="exploration", engine="E6-enum", design="4/C17",
                technique="deviation-bounded exhaustive mutation: every catalogue mutation at every site of every seed proto (singles; pairs and single-byte substitutions in thorough), with termination alarm, link-invariant, fixpoint and file-access oracles",
                text="31 valid seed models covering every construct of the C02 catalogue are mutated at every site: each string emptied / aliased to a sibling / dangling, each repeated element deleted / duplicated / swapped / reversed, each enum unknown, each int negative or huge, each bytes field truncated or invalid UTF-8, each optional message cleared, plus structural mutants (cycles, inconsistent tensor fields, absurd external-data entries, self-nested graph attributes, missing types, name collisions, nested bodies naming outer values). Every mutant must terminate within 5 s and either raise or return an IR that satisfies the C01 link invariant, whose values are owned by their producer's graph, whose serialisation raises or is a byte-exact fixpoint of one more round trip, and that touched no file (Python-level interception of open/stat/... on canary paths) during deserialisation or while reading name/dtype/shape/size of its tensors.",
                note="File access is observed at the Python level (the library is pure Python); unparsable byte mutants are outside the property."),
    "C20": dict(level="model_checking", engine="E1-bfs", design="4/C20",
                technique="differential exploration of all edit histories (C01 alphabet + one-shot-iterable and field-setter calls) executed plainly vs inside one / nested journals vs with an exception thrown out of the journal block at every position; class-table identity check after every exit",
                text="Every history up to depth 2 (quick: depth 2 below one representative of every call-site class of one seed, depth 1 everywhere; thorough: depth 2 everywhere, six seeds) is replayed on fresh real objects in >= 6 variants. Outcomes (return/exception per call) and the final canonical state must equal the plain run; the entries recorded during each public call must match, as a multiset of target classes, the instrumented calls logged by an independent call logger in the plain run (entries of raising calls tolerated); outer journals keep recording while inner ones are active; after every exit (normal, nested, by exception) every attribute of every IR class is the original function object / property triple; after dropping the world no entry keeps an IR object alive; a left journal records nothing.",
                note="The set of instrumented operations is read from the library's own table; entry matching is per public call, by target class."),
    "C13": dict(level="model_checking", engine="E1-edit", design="4/C13",
                technique="exhaustive enumeration of (source model x clone variant) states and of every single edit of an edit catalogue at every object of either side, with full-snapshot comparison of the untouched side",
                text="Every model of the C02 feature catalogue (plus a source whose body nodes are sharded on captured values) is deserialised and cloned through every variant (Model.clone shallow/deep, Graph.clone, Graph.clone(allow_outer_scope_values) and strict clone of every nested body, Function.clone, GraphView.clone, functionalize). Checked: byte-identical serialisation, disjoint identity sets of graphs/nodes/values/shapes/types/metadata containers/attribute containers, no reference from the clone into the original except declared outer values, strict clones with outer references raise; then each of 36 edits (names, dtype/type/denotation, shape/dims/denotations, const_value, doc, metadata_props, meta incl. validity, attributes, inputs/outputs/uses, device annotations, node list, graph collections and fields) is applied at every object of the clone - and symmetrically of the original - and the other side's complete public snapshot must be unchanged.",
                note="Sources are sorted first (cloner precondition); tensors may be shared, so a shared tensor's own name is not compared; depth-1 edits."),
    "C19": dict(level="model_checking", engine="E1-bfs", design="4/C19",
                technique="explicit-state BFS over annotate/rename/rewire/resize/clone/round-trip/(un)register histories on a real IRv11 model, annotation invariant + library checker + serialised references in every state",
                text="From a 4-node model (a body node capturing outer values, values of known and unknown rank, two registered configurations) every history of shard (all axis/num_shards/device/stage forms on every node input/output and on a foreign value), set_pipeline_stage, replace_input_with, resize_inputs/outputs, replace_all_uses_with, rename, add/remove_device_configuration(cascade), Model.clone (shallow/deep) and an IRv11 serde round trip is executed up to depth 3 (quick: third level below two annotating calls and restricted to edit/clone/round-trip calls); the model is serialised between calls. In every state: every spec targets a current input/output of its node and a registered configuration, no negative stage / out-of-range or repeated axis / <1 shard is recorded, the library's own device-configuration check reports nothing, serialised tensor_name/configuration_id use current names; invalid requests (reference decision) must raise and raising requests must leave the snapshot unchanged.",
                note="shard/set_pipeline_stage only receive registered configurations; remove always cascades."),
    "C03": dict(level="model_checking", engine="E1-edit", design="4/C03",
                technique="enumeration of IR model states reachable by construction and edit histories (catalogue models x every single catalogue edit, shadowing renames, C01-alphabet world states to depth 2, one model per tensor implementation); serialise twice, snapshot before/after, structural isomorphism after the round trip",
                text="Every ONNX-expressible state is serialised twice (byte-equal protos), its complete public snapshot is compared before/after serialisation (only initializer tensors' own names may change), and from_proto(to_proto(m)) is compared with m through a canonical structural form (node order, operator ids, connectivity incl. shared/captured/shadowing values, names, types, shapes and denotations, attributes incl. nested graphs and tensors by bytes, docs, metadata, quantization annotations, functions, opset imports, device configurations incl. identity with the model's registered configurations).",
                note="States ONNX cannot express are excluded and counted; IR-only state (analysis meta, Node.version, frozen flags, ''/None) is not compared; documented deserialiser normalisations (initializer values always typed/shaped, trailing unnamed outputs trimmed) are applied to both sides."),
    "C10": dict(level="exploration", engine="E6-enum", design="4/C10",
                technique="exhaustive enumeration of location strings x base-directory spellings x read entry points on a real sandbox tree against an independent realpath/lstat reference, opens observed via the audit hook; plus read-mutate-read histories on one tensor",
                text="Every location string of up to 3 (thorough 4) components over 18 components (., .., files, sub-directory, symlinks to files/directories inside and outside, hard links inside/outside, a sibling directory sharing the base's name as prefix, empty and missing components) plus absolute and non-normalised forms, under 8 spellings of the base directory, through 8 read entry points (numpy, __array__, tobytes, tofile to BytesIO and to a file, convert_tensors_from_external, load_to_model, serialisation of numpy()). A read may return only if the reference allows it and then exactly that file's bytes; no file outside the resolved base may even be opened. ir.load under 9 spellings of the model path (bare name, ./name, pathlib, through symlinked directory and symlinked model file, ...) must give the model's directory as base and keep rejecting escaping locations. Histories read - change base_dir / swap file for an escaping symlink / add a hard link / swap a directory for a symlink - read again (with and without release()) on one tensor object must not return outside bytes.",
                note="tmpfs sandbox; reference = realpath + stat; over-rejection is counted but not a violation; cached arrays of a legitimately read file may be returned again."),
    "C07": dict(level="exploration", engine="E6-enum", design="4/C07",
                technique="exhaustive configuration enumeration (model mixes x threshold x alignment x shard limit x workers x destination x path spelling x backend) with save + reload + layout audit per configuration",
                text="Eight model mixes (in-memory, lazy, packed/unpacked 4-bit, 2-bit, proto-backed via raw and typed fields, already external from another file, re-save of a loaded model onto its own data file, zero-size, one tensor object under several names incl. across graphs, subgraph initializers, many small, every size class) are saved with every option tuple of the grid (thorough: full cross product of 4 thresholds x 7 alignment settings x 6 shard limits x 4 worker counts x 3 destinations x 3 path spellings; quick: reduced grid) through the raw backend and the safetensors backend, reloaded with ir.load and audited: name/dtype/shape/bytes of every initializer in every graph, external iff above the threshold, per data file ranges in declaration order (raw), disjoint, inside the file, aligned as requested, each tensor in one shard, over-limit shards hold one tensor, no trailing bytes, and the model passed to save holds the same tensor objects afterwards.",
                note="Threshold ties follow the documented comparison; the order inside a safetensors file is chosen by the safetensors writer and not judged."),
    "C15": dict(level="model_checking", engine="E1-seq", design="4/C15",
                technique="exhaustive enumeration of add/remove/re-add histories of the name authority, of small models over a colliding name alphabet for NameFixPass, and of all rename_values assignments",
                text="(a) From three seed graphs (plain, generated-looking input/initializer names) every history up to depth 4 (thorough 5) of adding nodes (two op types x explicit names shaped like generated ones, also of the other op type x explicit/absent output names, via append/constructor/insert_before/extend), removing, re-adding and re-adding after un-naming is executed; every generated node/value name must be new for the graph, explicit names untouched. (b) NameFixPass runs on every model of main graph + If body + model-local function whose values and nodes take names from {None, '', a, a_1, v, v_1} / {None, n, n_1, node}: afterwards all names non-empty, unique per graph and against visible outer values, initializers keyed by name, nothing but names changed, unique names kept, second run reports no modification. (c) rename_values is called with every assignment of <= 3 names (incl. swaps, cycles, duplicates, '', colliding names) to <= 3 of six values (initializers of two graphs, node output, input): applied completely with keys/flags following, or raised with the snapshot unchanged.",
                note="Registered names are tracked by the harness' own log; visible outer values under the weakest reading."),
    "C05": dict(level="model_checking", engine="E1-pass", design="4/C05",
                technique="reachability over the pass-transition system: from every generated checker-valid seed model a BFS over sequences of the 26 built-in pass configurations with de-duplication on the serialised model; independent interpreter of the serialised proto as semantic oracle",
                text="Seeds are all models of the small-scope grammar (1 and 2 nodes exhaustively over 20+ node forms: arithmetic, unary, Cast, Clip with optional inputs, Dropout with optional output, Split, four Constant forms, If with six then/else body templates capturing outer values incl. body initializers, calls into nested and nested model-local functions with given/default/absent attribute parameters and a function-only opset domain), every input wiring and output choice, duplicate initializers, plus targeted families (mirrored/duplicate operators over shared operands, the same seed at opset 21 and 13 back to back through the same pass objects, BatchNormalization in training mode, identity chains). After every pass application: outputs equal the seed's outputs position by position on 8 input tuples, number of outputs and non-initializer inputs unchanged, onnx.checker (full check when the seed passes it) still accepts, link invariant holds.",
                note="Semantic oracle mc/evalproto.py (own interpreter with literal ONNX scoping, function attribute binding and defaults), validated against onnx.reference and onnxruntime; quick: pass sequences of length 2 on 1-node seeds, length 1 elsewhere; thorough: 3 / 2."),
    "C14": dict(level="model_checking", engine="E1-pass", design="4/C14",
                technique="same pass-transition system as C05 with the contract oracle per transition, iterated application to the fixpoint, and fault injection at the ONNX C-API boundary for the analysis passes",
                text="Per transition: the in-place/functional identity rule, modified=False implies byte-identical serialisation, link invariant, topologically ordered graphs stay ordered, still serialisable, consumed values and graph outputs keep their names, repeated application reports no modification within |nodes|+|initializers|+8 rounds and then changes nothing. CheckerPass and ShapeInferencePass (two configurations each) run on models whose initializers lack type/shape, mix large and small tensors, or contain a LazyTensor that raises, with the underlying onnx call replaced by a raising callable or not: whenever the pass validates only, raises, or reports modified=False the complete public snapshot, initializer order and graph inputs must be unchanged.",
                note="Pass objects are reused across models inside a worker (state must not leak between models)."),
    "C18": dict(level="exploration", engine="E6-enum", design="4/C18",
                technique="exhaustive enumeration of boundary cuts (input subset x output subset, by object and by name) over generated source graphs taken as Graph, GraphView and Function, against a brute-force backward closure and pinned-boundary evaluation; exhaustive capture-set combinations for the implicit-usage analysis",
                text="Every source of the graph grammar (1 node: all cuts with up to 2 inputs and 2 outputs; 2 nodes: quick every fifth seed plus every seed with an If or a function call with |inputs|<=1, |outputs|=1, thorough all seeds with 2/2; mirrored-operator family; doubly nested If bodies capturing main-graph values) is cut in every way. A cut whose closure needs an uncovered non-initializer value must raise; otherwise the result must contain exactly the closure's nodes in source order, every needed initializer, the given boundary, share no graph/node/value object with the source, and - wrapped into a model and evaluated with the boundary inputs pinned to the values the source computes - produce the source's values at the outputs. analyze_implicit_usage is compared with a brute-force scope computation on every source and on all 1728 capture-set combinations of two sibling bodies of a list-of-graphs attribute, a body nested in the first sibling and a following single-graph attribute.",
                note="Reference closure and interpreter (mc/evalproto.py) are part of the trusted base."),
}

NOT_YET = {}

# coverage added after the first build (appended to the level text of the check)
EXTRA = {
    "C01": "The alphabet also constructs new graphs over existing values and nodes (ir.Graph(inputs, outputs, nodes=, initializers=) in every role combination, incl. objects owned elsewhere).",
    "C06": "Rejected graph constructions over existing objects are part of the alphabet.",
    "C02": "Every leaf tensor / type / attribute is additionally round-tripped inside every model context that can hold it (main and body initializer, Constant value, TENSORS attribute in a function; graph input / value-info / output / body output / function value-info; main, body and function node), and triples of deviations are enumerated in the thorough tier.",
    "C03": "World states: every first step of the edit alphabet from all six seed worlds.",
    "C05": "Seed families include a name-clash family (caller values named like callee-internal values and their suffixed forms), opset pairs through shared pass objects, 160 kB initializers differing at one position, and kept-Identity models with differing annotations.",
    "C07": "A failing-save grid (model path unusable, unknown format, raising callback / lazy tensor incl. BaseException, existing shard file) checks that the caller's model holds the same tensor objects after the exception; alignments include non-powers of two.",
    "C08": "The same worlds are also driven through external_data.unload_from_model and convert_tensors_to_external; one history uses a source location that only textually normalises to the destination.",
    "C09": "Dedicated configurations make lock releases scheduling points too; the recording budget accounts outstanding reservations against the documented contract (regular reservations <= capacity, at most one oversized).",
    "C10": "Locations include backslash forms and in-directory symlinks into the prefix sibling; two-tensor sequences re-use one base-directory spelling across a chdir and a re-pointed directory symlink.",
    "C12": "Sort-edit-sort histories (new producer for a free value, replace_input_with, replace_all_uses_with between two sorts) are judged against a dependency relation read off the live IR.",
    "C13": "Every functionalized pipeline over 11 modifying passes (Sequential / PassManager, every in-place/functional member mix, led by the checker) must leave the full snapshot of its input unchanged.",
    "C14": "Compositions include functionalized members and three-member pipelines led by the validating pass; every composition is compared with member-by-member application.",
    "C15": "One NameFixPass object is run, the model edited to clash again, and the same object run again.",
    "C16": "Dims built from hand-written SymPy expressions over plain / integer / integer-positive symbols are evaluated against the same reference.",
    "C17": "Oracles added: the returned IR is closed (no input produced by a node outside the model), results do not depend on earlier (also rejected) deserialisations, any file opened outside the interpreter/library trees counts as file access; mutants include checksum entries, external tensors in nested bodies and functions, names colliding with external initializers, and shadowing inside function bodies.",
    "C18": "Capture-analysis sources include values defined in an intermediate body (node output, formal input, initializer) used one and two levels deeper; extraction sources include initializers that are also graph inputs.",
    "C20": "An inspected run (a hook reading obj/display() for every entry, Journal.display() after every operation) must behave like the plain run and keep no object alive.",
}

ALL = [f"C{i:02d}" for i in range(1, 21)]


def main():
    checks = []
    for pid in ALL:
        c = CHECKS.get(pid)
        if not c:
            continue
        checks.append({
            "property_id": pid,
            "quick_cmd": f"./check {pid} --tier quick",
            "thorough_cmd": f"./check {pid} --tier thorough",
            "evidence_file": f"/verif/evidence/{pid}.json",
            "replay_cmd_template": f"./check {pid} --replay {{path}}",
            "engine": c["engine"],
            "level_claimed": {"category": c["level"], "text": c["text"] + (" " + EXTRA[pid] if pid in EXTRA else ""), "design_ref": c["design"]},
            "level_note": c["note"],
            "technique": c["technique"],
        })
    na = [{"property_id": pid, "reason": NOT_YET.get(pid, "check not built yet in this session (work in progress; the technique applies, see DESIGN.md section 4)")}
          for pid in ALL if pid not in CHECKS]
    m = {
        "version": 1,
        "setup_cmd": "true",
        "hooks": {
            "guard": "ONNX_IR_PY_VERIF",
            "enable": "no source hooks: every seam (threading, executor, os/open, ONNX C-API boundary) is reached by rebinding module globals from the harness; ./check exports ONNX_IR_PY_VERIF=1 for uniformity",
            "baseline_off_cmd": "cd /repo && /venv/bin/python -m pytest -ra -q -p no:cacheprovider --timeout=900 --continue-on-collection-errors",
            "source_commits": [],
            "add_only": True,
        },
        "engines": [
            {"name": "E1-bfs", "path": "mc/explore.py", "serves_properties": ["C01", "C06", "C19", "C20"],
             "kind_free_text": "explicit-state BFS over the real transition function; states are histories replayed on fresh real objects; dedup on canonical public snapshot"},
            {"name": "E1-seq", "path": "mc/props/c11.py", "serves_properties": ["C11", "C15"],
             "kind_free_text": "stateless enumeration of all event sequences up to a depth with trace monitors"},
            {"name": "E6-enum", "path": "mc/props/", "serves_properties": ["C02", "C04", "C07", "C10", "C12", "C16", "C17", "C18"],
             "kind_free_text": "small-scope exhaustive input/structure enumeration with independent reference oracles"},
            {"name": "E5-fsfault", "path": "mc/fsfault.py", "serves_properties": ["C08"],
             "kind_free_text": "file-system effect interception + exhaustive fault/crash/torn-write plans"},
            {"name": "E1-edit", "path": "mc/props/c13.py", "serves_properties": ["C03", "C13"],
             "kind_free_text": "state x single-edit enumeration with snapshot comparison"},
            {"name": "E1-pass", "path": "mc/props/_passes.py", "serves_properties": ["C05", "C14"],
             "kind_free_text": "BFS over the pass-transition system from generated seed models; semantic oracle mc/evalproto.py; generator mc/gen_graphs.py"},
            {"name": "E4-sched", "path": "mc/sched.py", "serves_properties": ["C09"],
             "kind_free_text": "cooperative baton scheduler for real threads + stateless DFS with delay/preemption bounding"},
        ],
        "checks": checks,
        "not_applicable": na,
        "notes": "All checks run the real library from /repo/src (PYTHONPATH), no build step. See DESIGN.md; genuine defects are in known_findings.json (fixed ones carry the /repo commit).",
    }
    with open(os.path.join(HOME, "MANIFEST.json"), "w") as f:
        json.dump(m, f, indent=1)
    import jsonschema
    jsonschema.validate(m, json.load(open("/root/.vp/MANIFEST.schema.json")))
    print("MANIFEST ok:", [c["property_id"] for c in checks])


if __name__ == "__main__":
    main()
