"""CLI: python -m mc.run <ID> [--tier quick|thorough] [--replay FILE]"""

from __future__ import annotations

import argparse
import importlib
import json
import os
import sys
import traceback

from mc import common


def main(argv=None) -> int:
    ap = argparse.ArgumentParser()
    ap.add_argument("pid")
    ap.add_argument("--tier", default=os.environ.get("VERIF_TIER", "quick"), choices=["quick", "thorough"])
    ap.add_argument("--replay", default=None)
    args = ap.parse_args(argv)
    pid = args.pid.upper()
    try:
        mod = importlib.import_module(f"mc.props.{pid.lower()}")
    except ModuleNotFoundError as e:
        print(f"no check for {pid}: {e}", file=sys.stderr)
        return 2
    try:
        if args.replay:
            with open(args.replay) as f:
                obj = json.load(f)
            ok, msg = mod.replay(obj)
            print(("REPLAY-HOLDS " if ok else f"VIOLATION property={pid} replay={args.replay}\n  ") + str(msg))
            return 0 if ok else 1
        return mod.main(args.tier)
    except common.HarnessError as e:
        print(f"HARNESS-ERROR {pid}: {e}", file=sys.stderr)
        return 2
    except Exception:  # noqa: BLE001
        traceback.print_exc()
        print(f"HARNESS-ERROR {pid}: unexpected exception", file=sys.stderr)
        return 2


if __name__ == "__main__":
    sys.exit(main())
