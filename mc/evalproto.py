"""evalproto — a small interpreter over the *serialised* ModelProto for the generator's op alphabet.

It implements ONNX name scoping literally (a name must be defined before use in its scope or an
enclosing one; inner definitions shadow outer ones), model-local function calls with call-site
attributes, ref_attr_name binding and default attribute values, optional inputs/outputs and If.
It shares no code with the library under test: rewiring bugs and name-shadowing bugs both change
what it computes.
"""

from __future__ import annotations

import numpy as np
import onnx
from onnx import numpy_helper


class EvalError(Exception):
    pass


def _attr_value(a: onnx.AttributeProto):
    T = onnx.AttributeProto
    if a.type == T.FLOAT:
        return np.float32(a.f)
    if a.type == T.INT:
        return int(a.i)
    if a.type == T.STRING:
        return a.s
    if a.type == T.TENSOR:
        return numpy_helper.to_array(a.t)
    if a.type == T.FLOATS:
        return np.array(list(a.floats), dtype=np.float32)
    if a.type == T.INTS:
        return np.array(list(a.ints), dtype=np.int64)
    if a.type == T.GRAPH:
        return a.g
    if a.type == T.STRINGS:
        return list(a.strings)
    raise EvalError(f"attribute kind {a.type} not supported")


class Interp:
    def __init__(self, model: onnx.ModelProto):
        self.model = model
        self.functions = {}
        for f in model.functions:
            self.functions[(f.domain if f.domain != "ai.onnx" else "", f.name, f.overload)] = f

    def run(self, feeds: dict):
        g = self.model.graph
        scope = {}
        for t in g.initializer:
            scope[t.name] = numpy_helper.to_array(t)
        for i in g.input:
            if i.name in feeds:
                scope[i.name] = feeds[i.name]
            elif i.name not in scope:
                raise EvalError(f"missing input {i.name}")
        self._run_nodes(g.node, [scope], {})
        outs = []
        for o in g.output:
            if o.name not in scope:
                raise EvalError(f"graph output {o.name!r} is not defined")
            outs.append(scope[o.name])
        return outs

    def _lookup(self, scopes, name):
        for s in reversed(scopes):
            if name in s:
                return s[name]
        raise EvalError(f"value {name!r} used before definition")

    def _attrs(self, node, bound):
        """Resolve the node's attributes; reference attributes take the value bound at the call site
        (or the function's default); a reference to an unbound optional attribute is absent."""
        out = {}
        for a in node.attribute:
            if a.ref_attr_name:
                if a.ref_attr_name in bound:
                    out[a.name] = bound[a.ref_attr_name]
                continue
            out[a.name] = _attr_value(a)
        return out

    def _run_nodes(self, nodes, scopes, bound):
        cur = scopes[-1]
        for n in nodes:
            ins = [None if nm == "" else self._lookup(scopes, nm) for nm in n.input]
            attrs = self._attrs(n, bound)
            outs = self._op(n, ins, attrs, scopes, bound)
            if len(outs) < len([o for o in n.output if o]):
                raise EvalError(f"{n.op_type} produced {len(outs)} outputs, node declares {len(n.output)}")
            for nm, v in zip(n.output, outs):
                if nm:
                    cur[nm] = v

    def _run_graph(self, g, scopes, bound):
        scope = {}
        for t in g.initializer:
            scope[t.name] = numpy_helper.to_array(t)
        self._run_nodes(g.node, scopes + [scope], bound)
        outs = []
        for o in g.output:
            if o.name not in scope:
                raise EvalError(f"subgraph output {o.name!r} is not defined in the subgraph")
            outs.append(scope[o.name])
        return outs

    def _op(self, n, ins, attrs, scopes, bound):
        dom = "" if n.domain in ("", "ai.onnx") else n.domain
        key = (dom, n.op_type, n.overload)
        if key in self.functions:
            f = self.functions[key]
            fb = {}
            for a in f.attribute_proto:  # defaults
                fb[a.name] = _attr_value(a)
            for nm in f.attribute:  # no default: present only if given
                pass
            for k, v in attrs.items():
                fb[k] = v
            scope = {}
            for i, nm in enumerate(f.input):
                if i < len(ins) and ins[i] is not None:
                    scope[nm] = ins[i]
            self._run_nodes(f.node, [scope], fb)
            res = []
            for nm in f.output:
                if nm not in scope:
                    raise EvalError(f"function output {nm!r} undefined")
                res.append(scope[nm])
            return res
        if dom == "ai.onnx.ml" and n.op_type == "Binarizer":
            th = np.float32(attrs.get("threshold", 0.0))
            return [(ins[0] > th).astype(ins[0].dtype)]
        if dom != "":
            raise EvalError(f"unknown operator {key}")
        op = n.op_type
        f32 = np.float32
        if op == "Add":
            return [ins[0] + ins[1]]
        if op == "Sub":
            return [ins[0] - ins[1]]
        if op == "Mul":
            return [ins[0] * ins[1]]
        if op == "Div":
            with np.errstate(all="ignore"):
                return [ins[0] / ins[1]]
        if op == "Neg":
            return [-ins[0]]
        if op == "Abs":
            return [np.abs(ins[0])]
        if op == "Relu":
            return [np.maximum(ins[0], 0).astype(ins[0].dtype)]
        if op == "Identity":
            return [ins[0]]
        if op == "Cast":
            to = attrs["to"]
            return [ins[0].astype({1: np.float32, 7: np.int64, 9: np.bool_, 11: np.float64, 6: np.int32}[to])]
        if op == "Constant":
            for k in ("value", "value_float", "value_floats", "value_int", "value_ints"):
                if k in attrs:
                    v = attrs[k]
                    if k == "value_float":
                        return [np.array(v, dtype=f32)]
                    if k == "value_int":
                        return [np.array(v, dtype=np.int64)]
                    return [np.asarray(v)]
            raise EvalError("Constant without a supported value attribute")
        if op == "Clip":
            x = ins[0]
            lo = ins[1] if len(ins) > 1 and ins[1] is not None else None
            hi = ins[2] if len(ins) > 2 and ins[2] is not None else None
            if lo is not None:
                x = np.maximum(x, lo)
            if hi is not None:
                x = np.minimum(x, hi)
            return [x]
        if op == "Dropout":
            return [ins[0], np.ones(ins[0].shape, dtype=np.bool_)]
        if op == "Split":
            k = int(attrs.get("num_outputs", len(n.output)))
            axis = int(attrs.get("axis", 0))
            return list(np.array_split(ins[0], k, axis=axis))
        if op == "Concat":
            return [np.concatenate([i for i in ins if i is not None], axis=int(attrs.get("axis", 0)))]
        if op == "If":
            cond = bool(np.asarray(ins[0]).reshape(-1)[0])
            g = attrs["then_branch"] if cond else attrs["else_branch"]
            return self._run_graph(g, scopes, bound)
        if op == "BatchNormalization":
            x, scale, b, mean, var = ins[:5]
            eps = float(np.float32(attrs.get("epsilon", 1e-5)))  # attributes are single precision
            mom = float(np.float32(attrs.get("momentum", 0.9)))
            shp0 = [1, -1] + [1] * (x.ndim - 2)
            if int(attrs.get("training_mode", 0)) == 0:
                y = scale.reshape(shp0) * (x - mean.reshape(shp0)) / np.sqrt(var.reshape(shp0) + eps) + b.reshape(shp0)
                return [y.astype(f32)]
            cm = x.mean(axis=tuple(i for i in range(x.ndim) if i != 1))
            cv = x.var(axis=tuple(i for i in range(x.ndim) if i != 1))
            shp = [1, -1] + [1] * (x.ndim - 2)
            y = scale.reshape(shp) * (x - cm.reshape(shp)) / np.sqrt(cv.reshape(shp) + eps) + b.reshape(shp)
            return [y.astype(f32), (mean * mom + cm * (1 - mom)).astype(f32), (var * mom + cv * (1 - mom)).astype(f32)]
        if op == "LayerNormalization":
            x, scale = ins[0], ins[1]
            bias = ins[2] if len(ins) > 2 and ins[2] is not None else None
            axis = int(attrs.get("axis", -1))
            eps = float(np.float32(attrs.get("epsilon", 1e-5)))
            axes = tuple(range(axis % x.ndim, x.ndim))
            mean = x.mean(axis=axes, keepdims=True)
            var = ((x - mean) ** 2).mean(axis=axes, keepdims=True)
            inv = 1.0 / np.sqrt(var + eps)
            y = (x - mean) * inv * scale
            if bias is not None:
                y = y + bias
            return [y.astype(f32), mean.astype(f32), inv.astype(f32)]
        raise EvalError(f"operator {op} not in the interpreter's alphabet")


def run(model: onnx.ModelProto, feeds: dict):
    return Interp(model).run(feeds)


def same(a, b):
    """Bitwise (NaN-aware) equality of two output lists."""
    if len(a) != len(b):
        return False
    for x, y in zip(a, b):
        x, y = np.asarray(x), np.asarray(y)
        if x.dtype != y.dtype or x.shape != y.shape:
            return False
        if not np.array_equal(x, y, equal_nan=True):
            return False
        if x.dtype.kind == "f" and not np.array_equal(np.signbit(x) & (x == 0), np.signbit(y) & (y == 0)):
            return False  # +0.0 and -0.0 are different results (1/x tells them apart)
    return True
