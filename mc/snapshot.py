"""E2: observational snapshot of an IR universe through public accessors only.

A snapshot maps a stable token of every object (slot token from the World registry,
or a discovery-order token) to a tuple of its observable fields, object references
replaced by tokens.  Two snapshots are equal iff no public accessor can tell the two
universes apart (up to object identity, which is captured by the tokens).
"""

from __future__ import annotations

import onnx_ir as ir
from onnx_ir import _core


class Registry:
    """id(obj) -> token, in deterministic registration order."""

    def __init__(self):
        self.tok: dict[int, str] = {}
        self.objs: list = []  # keep alive
        self.counts: dict[str, int] = {}

    def add(self, obj, prefix: str) -> str:
        t = self.tok.get(id(obj))
        if t is None:
            n = self.counts.get(prefix, 0)
            self.counts[prefix] = n + 1
            t = f"{prefix}{n}"
            self.tok[id(obj)] = t
            self.objs.append(obj)
        return t

    def get(self, obj):
        if obj is None:
            return None
        return self.tok.get(id(obj))

    def token(self, obj) -> str | None:
        if obj is None:
            return None
        t = self.tok.get(id(obj))
        if t is not None:
            return t
        if isinstance(obj, _core.Value):
            return self.add(obj, "xv")
        if isinstance(obj, _core.Node):
            return self.add(obj, "xn")
        if isinstance(obj, (_core.Graph, _core.GraphView)):
            return self.add(obj, "xg")
        if isinstance(obj, _core.Function):
            return self.add(obj, "xf")
        return self.add(obj, "xo")


def dim_repr(d):
    if isinstance(d, int):
        return d
    if isinstance(d, _core.SymbolicDim):
        return ("sym", d.value)
    return ("?", repr(d))


def shape_repr(s):
    if s is None:
        return None
    dims = tuple(dim_repr(d) for d in s.dims)
    try:
        den = tuple(s.get_denotation(i) for i in range(len(dims)))
    except Exception:  # noqa: BLE001
        den = ()
    return (dims, den, bool(getattr(s, "frozen", False)))


def type_repr(t):
    if t is None:
        return None
    name = type(t).__name__
    den = getattr(t, "denotation", None)
    et = getattr(t, "elem_type", None)
    if isinstance(et, ir.DataType):
        return (name, int(et), den)
    return (name, type_repr(et), den)


def tensor_repr(t, reg: Registry, with_bytes=False):
    if t is None:
        return None
    tok = reg.add(t, "t")
    try:
        rec = (tok, type(t).__name__, t.name, int(t.dtype), tuple(dim_repr(d) for d in t.shape.dims))
    except Exception as e:  # noqa: BLE001
        rec = (tok, type(t).__name__, "<err>", type(e).__name__)
    # serialised state that lives on the tensor object itself (shared between a clone and its original)
    try:
        rec = rec + ((t.doc_string or None, tuple(sorted((t.metadata_props or {}).items()))),)
    except Exception:  # noqa: BLE001
        rec = rec + (("<no doc/metadata>",),)
    if with_bytes:
        try:
            rec = rec + (t.tobytes(),)
        except Exception as e:  # noqa: BLE001
            rec = rec + (("<err>", type(e).__name__),)
        # ... and the element values in logical (row-major) order, which for packed dtypes and strided arrays is
        # not the same observation as the byte string
        try:
            import numpy as _np

            rec = rec + (_np.ascontiguousarray(t.numpy()).tobytes(),)
        except Exception as e:  # noqa: BLE001
            rec = rec + (("<err>", type(e).__name__),)
    return rec


def meta_repr(obj):
    try:
        m = obj.meta
        keys = sorted(set(map(str, m.keys())) | set(map(str, getattr(m, "_invalid_keys", ()))))
        return tuple((k, repr(m.get(k)), m.is_valid(k)) for k in keys)
    except Exception:  # noqa: BLE001
        return ()


def props_repr(obj):
    # metadata_props creates an empty dict lazily: observationally identical to {}
    return tuple(obj.metadata_props.items())


def attr_repr(a, reg: Registry, with_bytes=False):
    if not isinstance(a, _core.Attr):
        return ("<not-attr>", repr(a))
    t = a.type
    v = a.value
    if a.is_ref():
        val = ("ref", a.ref_attr_name)
    elif t == ir.AttributeType.GRAPH:
        val = reg.token(v)
    elif t == ir.AttributeType.GRAPHS:
        val = tuple(reg.token(g) for g in v)
    elif t == ir.AttributeType.TENSOR:
        val = tensor_repr(v, reg, with_bytes)
    elif t == ir.AttributeType.TENSORS:
        val = tuple(tensor_repr(x, reg, with_bytes) for x in v)
    elif t in (ir.AttributeType.TYPE_PROTO,):
        val = (type_repr(v.type), shape_repr(v.shape))
    elif t in (ir.AttributeType.TYPE_PROTOS,):
        val = tuple((type_repr(x.type), shape_repr(x.shape)) for x in v)
    else:
        val = repr(v)
    return (a.name, int(t), val, a.doc_string)


def devcfg_repr(node, reg: Registry):
    out = []
    for dc in node.device_configurations:
        specs = []
        for s in dc.sharding_specs:
            specs.append(
                (
                    reg.token(s.value) if getattr(s, "value", None) is not None else None,
                    tuple(getattr(s, "device", ()) or ()),
                    repr(getattr(s, "index_to_device_group_map", None)),
                    repr(getattr(s, "sharded_dims", None)),
                )
            )
        cfg = dc.configuration
        out.append((None if cfg is None else reg.add(cfg, "cfg"), getattr(cfg, "name", None), tuple(specs), dc.pipeline_stage))
    return tuple(out)


def value_rec(v: _core.Value, reg: Registry, with_bytes=False):
    return (
        "V",
        v.name,
        type_repr(v.type),
        shape_repr(v.shape),
        tensor_repr(v.const_value, reg, with_bytes),
        v.doc_string,
        props_repr(v),
        meta_repr(v),
        tuple((reg.token(u.node), u.idx) for u in v.uses()),
        reg.token(v.producer()),
        v.index(),
        v.is_graph_input(),
        v.is_graph_output(),
        v.is_initializer(),
        _graph_token(v, reg),
    )


def _graph_token(v, reg):
    try:
        return reg.token(v.graph)
    except AttributeError:
        return "<producer is a half-constructed node>"


VALUE_FIELDS = ("kind", "name", "type", "shape", "const_value", "doc_string", "metadata_props", "meta",
                "uses", "producer", "index", "is_graph_input", "is_graph_output", "is_initializer", "graph")


def node_rec(n: _core.Node, reg: Registry, with_bytes=False):
    return (
        "N",
        n.name,
        n.domain,
        n.op_type,
        n.overload,
        n.version,
        tuple(reg.token(x) for x in n.inputs),
        tuple(reg.token(x) for x in n.outputs),
        tuple(attr_repr(a, reg, with_bytes) for a in n.attributes.values()),
        reg.token(n.graph),
        n.doc_string,
        props_repr(n),
        meta_repr(n),
        devcfg_repr(n, reg),
    )


NODE_FIELDS = ("kind", "name", "domain", "op_type", "overload", "version", "inputs", "outputs", "attributes",
               "graph", "doc_string", "metadata_props", "meta", "device_configurations")


def graph_rec(g, reg: Registry):
    return (
        "G",
        g.name,
        tuple(reg.token(n) for n in g),
        len(g),
        tuple(reg.token(v) for v in g.inputs),
        tuple(reg.token(v) for v in g.outputs),
        tuple((k, reg.token(v)) for k, v in g.initializers.items()),
        g.doc_string,
        tuple(g.opset_imports.items()),
        props_repr(g),
        meta_repr(g),
    )


GRAPH_FIELDS = ("kind", "name", "nodes", "len", "inputs", "outputs", "initializers", "doc_string",
                "opset_imports", "metadata_props", "meta")


def function_rec(f: _core.Function, reg: Registry):
    return (
        "F",
        f.name,
        f.domain,
        f.overload,
        tuple(reg.token(n) for n in f),
        tuple(reg.token(v) for v in f.inputs),
        tuple(reg.token(v) for v in f.outputs),
        tuple(attr_repr(a, reg) for a in f.attributes.values()),
        f.doc_string,
        tuple(f.opset_imports.items()),
        props_repr(f),
    )


def closure(roots, reg: Registry):
    """All IR objects reachable from roots through public accessors."""
    seen: dict[int, object] = {}
    order: list = []
    stack = list(reversed(list(roots)))
    while stack:
        o = stack.pop()
        if o is None or id(o) in seen:
            continue
        seen[id(o)] = o
        order.append(o)
        nxt = []
        if isinstance(o, _core.Node) and not hasattr(o, "_graph"):
            # a node whose constructor raised half-way but which an IR object still names (as its producer)
            zombies = getattr(reg, "zombies", None)
            if zombies is None:
                zombies = reg.zombies = {}
            zombies[id(o)] = o
            seen.pop(id(o))
            order.pop()
            continue
        if isinstance(o, _core.Value):
            nxt.append(o.producer())
            try:
                nxt.append(o.graph)
            except AttributeError:
                pass  # the producer is a half-constructed node (recorded when it is visited)
            nxt.extend(u.node for u in o.uses())
        elif isinstance(o, _core.Node):
            nxt.extend(o.inputs)
            nxt.extend(o.outputs)
            nxt.append(o.graph)
            for a in o.attributes.values():
                if isinstance(a, _core.Attr) and not a.is_ref():
                    if a.type == ir.AttributeType.GRAPH:
                        nxt.append(a.value)
                    elif a.type == ir.AttributeType.GRAPHS:
                        nxt.extend(a.value)
        elif isinstance(o, (_core.Graph, _core.GraphView)):
            try:
                members = list(o) + list(o.inputs) + list(o.outputs) + list(o.initializers.values())
            except AttributeError:
                # a graph whose constructor raised half-way but which is still referenced by IR objects
                zombies = getattr(reg, "zombies", None)
                if zombies is None:
                    zombies = reg.zombies = {}
                zombies[id(o)] = o
                members = []
            nxt.extend(members)
        elif isinstance(o, _core.Function):
            nxt.extend(o)
            nxt.extend(o.inputs)
            nxt.extend(o.outputs)
        elif isinstance(o, _core.Model):
            nxt.append(o.graph)
            nxt.extend(o.functions.values())
        stack.extend(reversed([x for x in nxt if x is not None]))
    return order


def snapshot(roots, reg: Registry, with_bytes=False) -> dict:
    """token -> record for every object reachable from roots."""
    out = {}
    for o in closure(roots, reg):
        t = reg.token(o)
        if isinstance(o, _core.Value):
            out[t] = value_rec(o, reg, with_bytes)
        elif isinstance(o, _core.Node):
            out[t] = node_rec(o, reg, with_bytes)
        elif isinstance(o, (_core.Graph, _core.GraphView)):
            out[t] = ("G", "<half-constructed>") if id(o) in getattr(reg, "zombies", {}) else graph_rec(o, reg)
        elif isinstance(o, _core.Function):
            out[t] = function_rec(o, reg)
    return out


def diff(a: dict, b: dict, limit=12):
    """Human-readable field-level difference of two snapshots."""
    out = []
    for t in sorted(set(a) | set(b)):
        ra, rb = a.get(t), b.get(t)
        if ra == rb:
            continue
        if ra is None or rb is None:
            out.append((t, "<presence>", ra is not None, rb is not None))
            continue
        fields = {"V": VALUE_FIELDS, "N": NODE_FIELDS, "G": GRAPH_FIELDS}.get(ra[0], ())
        for i, (x, y) in enumerate(zip(ra, rb)):
            if x != y:
                out.append((t, fields[i] if i < len(fields) else i, x, y))
        if len(out) >= limit:
            break
    return out


def diff_kinds(d):
    """Abstract a diff into object-kind.field names (used in finding keys)."""
    ks = set()
    for t, field, *_ in d:
        kind = "".join(c for c in t if not c.isdigit())
        ks.add(f"{kind}.{field}")
    return sorted(ks)
