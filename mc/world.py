"""The world interpreter: fresh real IR objects + a table of public mutation calls.

A *history* is (seed_name, [op, ...]); every op is a JSON-able tuple whose object
arguments are slot indices (graphs g, nodes n, values v), so a history means the
same thing in every fresh world.  All exploration engines (C01, C06, C20, ...)
rebuild states by replaying histories through `World.apply`.
"""

from __future__ import annotations

import numpy as np
import onnx_ir as ir
from onnx_ir import _core
from onnx_ir import convenience as ir_conv

from mc.snapshot import Registry, snapshot

NAMES = (None, "", "a", "b")


def _tensor(name, val=1.0):
    return ir.Tensor(np.array([val], dtype=np.float32), name=name)


class World:
    def __init__(self, seed_name: str):
        self.seed_name = seed_name
        self.graphs: list = []
        self.nodes: list = []
        self.values: list = []
        self.reg = Registry()
        self._vslot: dict[int, int] = {}
        SEEDS[seed_name](self)
        self.adopt()

    # -- registry -----------------------------------------------------------
    def add_graph(self, g):
        self.graphs.append(g)
        self.reg.add(g, "g")
        return g

    def add_node(self, n):
        self.nodes.append(n)
        self.reg.add(n, "n")
        for v in n.outputs:
            self.add_value(v)
        return n

    def add_value(self, v):
        if id(v) not in self._vslot:
            self._vslot[id(v)] = len(self.values)
            self.values.append(v)
            # the token of a value is its slot index
            self.reg.tok[id(v)] = f"v{len(self.values) - 1}"
            self.reg.objs.append(v)
        return v

    def adopt(self):
        """Register objects the library created behind our back (new node outputs)."""
        for n in list(self.nodes):
            for v in n.outputs:
                self.add_value(v)
            for v in n.inputs:
                if v is not None:
                    self.add_value(v)
        for g in self.graphs:
            for v in list(g.inputs) + list(g.outputs) + list(g.initializers.values()):
                self.add_value(v)
            for n in g:
                if not any(x is n for x in self.nodes):
                    self.add_node(n)

    def roots(self):
        return list(self.graphs) + list(self.nodes) + list(self.values)

    def snap(self):
        return snapshot(self.roots(), self.reg)

    def hidden(self):
        """State that is not observable now but shapes the future (part of the BFS key only)."""
        out = []
        for g in self.graphs:
            na = g._name_authority
            out.append((na._value_counter, na._node_counter, tuple(sorted(na._value_names)), tuple(sorted(na._node_names))))
            for coll in (g.inputs, g.outputs):
                rc = getattr(coll, "_ref_counter", None)
                if rc is not None:
                    out.append(tuple(sorted((self.reg.token(v), c) for v, c in rc.items() if c)))
        return tuple(out)

    def refcounts(self):
        """Membership reference counts of the tracked input/output lists (internal, but they decide
        when ownership flags are cleared, so a rejected call must not change them either)."""
        out = {}
        for g in self.graphs:
            for nm, coll in (("inputs", g.inputs), ("outputs", g.outputs)):
                rc = getattr(coll, "_ref_counter", None)
                if rc is not None:
                    out[f"{self.reg.token(g)}.{nm}"] = tuple(sorted((self.reg.token(v), c) for v, c in rc.items() if c))
        return out

    def canon(self):
        s = self.snap()
        return (tuple(sorted(s.items())), self.hidden())

    # -- argument resolution --------------------------------------------------
    def V(self, i):
        return None if i is None else self.values[i]

    def N(self, i):
        return self.nodes[i]

    def G(self, i):
        return self.graphs[i]

    def Ns(self, x):
        if isinstance(x, (list, tuple)):
            return [self.nodes[i] for i in x]
        return self.nodes[x]

    def Vs(self, x):
        return [self.V(i) for i in x]

    # -- execution ------------------------------------------------------------
    def apply(self, op):
        """Execute one op. Returns ("ret", summary) or ("exc", ExceptionTypeName)."""
        name = op[0]
        fn = OPS[name]
        thunk = fn(self, *op[1:])  # argument resolution: harness errors propagate
        try:
            r = thunk()
            out = ("ret", _summ(self, r))
        except Exception as e:  # noqa: BLE001 - any exception of the public call is an outcome
            out = ("exc", type(e).__name__)
        self.adopt()
        return out


def _summ(w, r):
    if r is None or isinstance(r, (int, str, bool)):
        return r
    if isinstance(r, (_core.Value, _core.Node, _core.Graph)):
        return w.reg.token(r)
    if isinstance(r, (list, tuple)):
        return [_summ(w, x) for x in r]
    return type(r).__name__


def replay(history):
    seed_name, ops = history
    w = World(seed_name)
    outs = [w.apply(op) for op in ops]
    return w, outs


# ---------------------------------------------------------------------------
# seeds

SEEDS = {}


def seed(fn):
    SEEDS[fn.__name__[5:]] = fn
    return fn


@seed
def seed_empty(w: World):
    w.add_graph(ir.Graph([], [], nodes=[], name="G0"))
    w.add_graph(ir.Graph([], [], nodes=[], name="G1"))
    w.add_value(ir.Value(name="a"))
    w.add_value(ir.Value(name="b", const_value=_tensor("b")))
    w.add_value(ir.Value(name=None))


@seed
def seed_wired(w: World):
    v0 = w.add_value(ir.Value(name="a"))
    v1 = w.add_value(ir.Value(name="b", const_value=_tensor("b")))
    v2 = w.add_value(ir.Value(name="c"))
    n0 = ir.Node("", "Relu", [v0], name="n0")
    g0 = w.add_graph(ir.Graph([v0], [n0.outputs[0]], nodes=[n0], name="G0"))
    w.add_graph(ir.Graph([v2], [], nodes=[], name="G1"))
    w.add_node(n0)
    n1 = ir.Node("", "Add", [v0, n0.outputs[0]], name="n1")
    w.add_node(n1)
    del g0, v1


@seed
def seed_multi(w: World):
    # one value that is input + output + initializer at once and listed twice as output
    v0 = w.add_value(ir.Value(name="a", const_value=_tensor("a")))
    v1 = w.add_value(ir.Value(name="b", const_value=_tensor("b")))
    v2 = w.add_value(ir.Value(name="a", const_value=_tensor("a", 2.0)))  # same name, different object
    n0 = ir.Node("", "Neg", [v0, None, v0], num_outputs=2, name="n0")
    g0 = w.add_graph(ir.Graph([v0], [v0, n0.outputs[1], v0], nodes=[n0], initializers=[v0, v1], name="G0"))
    w.add_graph(ir.Graph([], [], nodes=[], name="G1"))
    w.add_node(n0)
    del g0, v2


@seed
def seed_nested(w: World):
    # G1 is the body of an If-like node of G0 and captures outer values
    v0 = w.add_value(ir.Value(name="a"))
    v1 = w.add_value(ir.Value(name="b", const_value=_tensor("b")))
    v2 = w.add_value(ir.Value(name="c"))
    n0 = ir.Node("", "Relu", [v0], name="n0")
    n1 = ir.Node("", "Add", [v0, n0.outputs[0]], name="n1")  # lives in the body, uses outer values
    g1 = ir.Graph([], [n1.outputs[0]], nodes=[n1], name="G1")
    n2 = ir.Node("", "If", [n0.outputs[0]], [ir.AttrGraph("then_branch", g1)], name="n2")
    g0 = w.add_graph(ir.Graph([v0], [n2.outputs[0]], nodes=[n0, n2], initializers=[v1], name="G0"))
    w.add_graph(g1)
    for n in (n0, n1, n2):
        w.add_node(n)
    del g0, v2


@seed
def seed_unsorted(w: World):
    # both the main graph and the If body are out of order (but acyclic); one edit away from a cycle
    v0 = w.add_value(ir.Value(name="a"))
    v1 = w.add_value(ir.Value(name="b", const_value=_tensor("b")))
    n0 = ir.Node("", "Relu", [v0], name="n0")
    n1 = ir.Node("", "Neg", [n0.outputs[0]], name="n1")
    n3 = ir.Node("", "Abs", [n1.outputs[0]], name="n3")
    g1 = ir.Graph([], [n3.outputs[0]], nodes=[n3, n1], name="G1")  # n3 before its producer n1
    n2 = ir.Node("", "If", [n0.outputs[0]], [ir.AttrGraph("then_branch", g1)], name="n2")
    w.add_graph(ir.Graph([v0], [n2.outputs[0]], nodes=[n2, n0], name="G0"))  # n2 before its producer n0
    w.add_graph(g1)
    for n in (n0, n1, n2, n3):
        w.add_node(n)
    del v1


@seed
def seed_chain(w: World):
    # three nodes in a chain, the middle one feeding a graph output as well
    v0 = w.add_value(ir.Value(name="a"))
    v1 = w.add_value(ir.Value(name="b", const_value=_tensor("b")))
    n0 = ir.Node("", "Relu", [v0], name="n0")
    n1 = ir.Node("", "Neg", [n0.outputs[0]], name="n1")
    n2 = ir.Node("", "Add", [n1.outputs[0], n0.outputs[0]], name="n2")
    w.add_graph(ir.Graph([v0], [n2.outputs[0], n1.outputs[0]], nodes=[n0, n1, n2], initializers=[v1], name="G0"))
    w.add_graph(ir.Graph([], [], nodes=[], name="G1"))
    for n in (n0, n1, n2):
        w.add_node(n)


@seed
def seed_dupnames(w: World):
    # two nodes carrying one name and two values carrying one name (legal in the IR; names are the user's business)
    v0 = w.add_value(ir.Value(name="a"))
    n0 = ir.Node("", "Relu", [v0], name="dup")
    n1 = ir.Node("", "Neg", [v0], name="dup")
    n0.outputs[0].name = "o"
    n1.outputs[0].name = "o"
    w.add_graph(ir.Graph([v0], [n0.outputs[0]], nodes=[n0, n1], name="G0"))
    w.add_graph(ir.Graph([], [], nodes=[], name="G1"))
    for n in (n0, n1):
        w.add_node(n)


# ---------------------------------------------------------------------------
# ops: each returns a thunk so that argument resolution (harness) is separated
# from the public call (system under test)

OPS = {}


def op(fn):
    OPS[fn.__name__[3:]] = fn
    return fn


# --- node creation ----------------------------------------------------------
@op
def op_new_node(w, inputs, num_outputs, outputs, graph, name):
    ins = w.Vs(inputs)
    outs = None if outputs is None else w.Vs(outputs)
    g = None if graph is None else w.G(graph)

    def thunk():
        if name == "<bad attribute>":
            # a constructor call that is rejected for a reason unrelated to its values (an attribute that is not an Attr)
            n = ir.Node("", "Op", ins, attributes=[123], num_outputs=num_outputs, outputs=outs, graph=g, name="bad")
        else:
            n = ir.Node("", "Op", ins, num_outputs=num_outputs, outputs=outs, graph=g, name=name)
        w.add_node(n)
        return n

    return thunk


@op
def op_new_graph(w, inputs, outputs, nodes, initializers):
    """Graph(...) built from values/nodes that already exist (possibly owned elsewhere)."""
    ins, outs, ns, inits = w.Vs(inputs), w.Vs(outputs), [w.N(i) for i in nodes], w.Vs(initializers)

    def thunk():
        g = ir.Graph(ins, outs, nodes=ns, initializers=inits, name=f"G{len(w.graphs)}")
        w.add_graph(g)
        return g

    return thunk


# --- graph node-list ----------------------------------------------------------
@op
def op_g_append(w, g, n):
    G, Nn = w.G(g), w.N(n)
    return lambda: G.append(Nn)


@op
def op_g_extend(w, g, ns):
    G, L = w.G(g), w.Ns(ns)
    return lambda: G.extend(L)


@op
def op_g_insert_before(w, g, anchor, ns):
    G, A, L = w.G(g), w.N(anchor), w.Ns(ns)
    return lambda: G.insert_before(A, L)


@op
def op_g_insert_after(w, g, anchor, ns):
    G, A, L = w.G(g), w.N(anchor), w.Ns(ns)
    return lambda: G.insert_after(A, L)


@op
def op_g_remove(w, g, ns, safe):
    G, L = w.G(g), w.Ns(ns)
    return lambda: G.remove(L, safe=safe)


@op
def op_g_sort(w, g):
    G = w.G(g)
    return lambda: G.sort()


@op
def op_n_prepend(w, anchor, ns):
    A, L = w.N(anchor), w.Ns(ns)
    return lambda: A.prepend(L)


@op
def op_n_append(w, anchor, ns):
    A, L = w.N(anchor), w.Ns(ns)
    return lambda: A.append(L)


# --- node inputs / outputs ----------------------------------------------------
@op
def op_replace_input(w, n, i, v):
    Nn, Vv = w.N(n), w.V(v)
    return lambda: Nn.replace_input_with(i, Vv)


@op
def op_resize_inputs(w, n, k):
    Nn = w.N(n)
    return lambda: Nn.resize_inputs(k)


@op
def op_resize_outputs(w, n, k):
    Nn = w.N(n)
    return lambda: Nn.resize_outputs(k)


# --- values -------------------------------------------------------------------
@op
def op_rauw(w, v, r, flag):
    Vv, R = w.V(v), w.V(r)
    return lambda: Vv.replace_all_uses_with(R, replace_graph_outputs=flag)


@op
def op_conv_rauw(w, vs, rs, flag):
    A, B = w.Vs(vs), w.Vs(rs)
    return lambda: ir_conv.replace_all_uses_with(A, B, replace_graph_outputs=flag)


@op
def op_replace_nodes_and_values(w, g, ip, old_nodes, new_nodes, old_values, new_values):
    G, IP = w.G(g), w.N(ip)
    on, nn, ov, nv = w.Ns(old_nodes), w.Ns(new_nodes), w.Vs(old_values), w.Vs(new_values)
    return lambda: ir_conv.replace_nodes_and_values(G, IP, on, nn, ov, nv)


@op
def op_rename(w, v, name):
    Vv = w.V(v)

    def thunk():
        Vv.name = name

    return thunk


@op
def op_rename_values(w, vs, names):
    L = w.Vs(vs)
    nm = [w.values[x[1]].name if isinstance(x, (list, tuple)) else x for x in names]
    return lambda: ir_conv.rename_values(L, nm)


@op
def op_merge_shapes(w, v, dims):
    V = w.V(v)

    def thunk():
        V.merge_shapes(ir.Shape(list(dims)))

    return thunk


@op
def op_node_rename(w, n, name):
    Nn = w.N(n)

    def thunk():
        Nn.name = name

    return thunk


# --- graph inputs / outputs: the complete MutableSequence surface ----------------
def _coll(w, g, which):
    G = w.G(g)
    return G.inputs if which == "inputs" else G.outputs


@op
def op_io(w, g, which, method, *args):
    C = _coll(w, g, which)
    m = method
    if m == "append":
        v = w.V(args[0])
        return lambda: C.append(v)
    if m == "extend":
        L = w.Vs(args[0])
        return lambda: C.extend(L)
    if m == "insert":
        i, v = args[0], w.V(args[1])
        return lambda: C.insert(i, v)
    if m == "pop":
        return (lambda: C.pop()) if not args else (lambda: C.pop(args[0]))
    if m == "remove":
        v = w.V(args[0])
        return lambda: C.remove(v)
    if m == "clear":
        return lambda: C.clear()
    if m == "setitem":
        i, v = args[0], w.V(args[1])

        def t():
            C[i] = v

        return t
    if m == "setslice":
        (a, b), L = args[0], w.Vs(args[1])

        def t():
            C[a:b] = L

        return t
    if m == "delitem":
        i = args[0]

        def t():
            del C[i]

        return t
    if m == "delslice":
        a, b = args[0]

        def t():
            del C[a:b]

        return t
    if m == "reverse":
        return lambda: C.reverse()
    if m == "sort":
        return lambda: C.sort(key=lambda v: v.name or "")
    if m == "iadd":
        L = w.Vs(args[0])
        G = w.G(g)

        def t():
            c = G.inputs if which == "inputs" else G.outputs
            c += L

        return t
    if m == "imul":
        k = args[0]
        G = w.G(g)

        def t():
            c = G.inputs if which == "inputs" else G.outputs
            c *= k

        return t
    if m == "copy":
        return lambda: [w.reg.token(x) for x in C.copy()]
    raise KeyError(m)


# --- graph initializers: the complete MutableMapping surface ----------------------
@op
def op_init(w, g, method, *args):
    G = w.G(g)
    D = G.initializers
    m = method
    if m == "setitem":
        k, v = args[0], w.V(args[1])
        if k == "<name>":
            k = v.name

        def t():
            D[k] = v

        return t
    if m == "add":
        v = w.V(args[0])
        return lambda: D.add(v)
    if m == "register":
        v = w.V(args[0])
        return lambda: G.register_initializer(v)
    if m == "delitem":
        k = args[0]

        def t():
            del D[k]

        return t
    if m == "pop":
        k = args[0]
        return lambda: D.pop(k)
    if m == "popitem":
        return lambda: D.popitem()[0]
    if m == "clear":
        return lambda: D.clear()
    if m == "update":
        vs = w.Vs(args[0])
        return lambda: D.update({v.name: v for v in vs})
    if m == "setdefault":
        k, v = args[0], w.V(args[1])
        if k == "<name>":
            k = v.name
        return lambda: D.setdefault(k, v)
    if m == "copy_then_edit_the_copy":
        # copy() must hand out something whose edits do not reach the graph (or that is fully tracked)
        k = args[0]

        def t():
            c = D.copy()
            if k in c:
                del c[k]
            else:
                c.clear()

        return t
    if m == "ior":
        v = w.V(args[0])

        def t():
            d = D
            d |= {v.name: v}

        return t
    raise KeyError(m)
