"""Small-scope generators for ONNX protos (C02 / C17) and the C02 normaliser (B5)."""

from __future__ import annotations

import itertools

import numpy as np
import onnx
from onnx import TensorProto as TP
from onnx import helper

ALL_DTYPES = [TP.FLOAT, TP.UINT8, TP.INT8, TP.UINT16, TP.INT16, TP.INT32, TP.INT64, TP.BOOL, TP.FLOAT16, TP.DOUBLE, TP.UINT32,
              TP.UINT64, TP.COMPLEX64, TP.COMPLEX128, TP.BFLOAT16, TP.FLOAT8E4M3FN, TP.FLOAT8E4M3FNUZ, TP.FLOAT8E5M2, TP.FLOAT8E5M2FNUZ,
              TP.UINT4, TP.INT4, TP.FLOAT4E2M1, TP.FLOAT8E8M0, TP.UINT2, TP.INT2]
BITS = {TP.FLOAT: 32, TP.UINT8: 8, TP.INT8: 8, TP.UINT16: 16, TP.INT16: 16, TP.INT32: 32, TP.INT64: 64, TP.BOOL: 8, TP.FLOAT16: 16,
        TP.DOUBLE: 64, TP.UINT32: 32, TP.UINT64: 64, TP.COMPLEX64: 64, TP.COMPLEX128: 128, TP.BFLOAT16: 16, TP.FLOAT8E4M3FN: 8,
        TP.FLOAT8E4M3FNUZ: 8, TP.FLOAT8E5M2: 8, TP.FLOAT8E5M2FNUZ: 8, TP.UINT4: 4, TP.INT4: 4, TP.FLOAT4E2M1: 4, TP.FLOAT8E8M0: 8,
        TP.UINT2: 2, TP.INT2: 2}


def typed_field(dt):
    if dt in (TP.FLOAT, TP.COMPLEX64):
        return "float_data"
    if dt in (TP.DOUBLE, TP.COMPLEX128):
        return "double_data"
    if dt == TP.INT64:
        return "int64_data"
    if dt in (TP.UINT32, TP.UINT64):
        return "uint64_data"
    return "int32_data"


def _nelem(dims):
    n = 1
    for d in dims:
        n *= d
    return n


def tensor(dt, dims, field="raw_data", name="t", doc=None, meta=0):
    tp = TP(name=name, data_type=dt, dims=list(dims))
    n = _nelem(dims)
    nbytes = -(-n * BITS.get(dt, 8) // 8)
    if field == "raw_data":
        tp.raw_data = bytes((7 * i + 3) % 251 % (2 if dt == TP.BOOL else 256) for i in range(nbytes))
    elif field == "float_data":
        tp.float_data.extend([float(i) + 0.5 for i in range(n * (2 if dt == TP.COMPLEX64 else 1))])
    elif field == "double_data":
        tp.double_data.extend([float(i) - 1.25 for i in range(n * (2 if dt == TP.COMPLEX128 else 1))])
    elif field == "int64_data":
        tp.int64_data.extend([i - 2 for i in range(n)])
    elif field == "uint64_data":
        tp.uint64_data.extend([i * 3 for i in range(n)])
    elif field == "int32_data":
        if BITS[dt] < 8:
            tp.int32_data.extend([(17 * i + 5) % 256 for i in range(nbytes)])
        elif dt == TP.BOOL:
            tp.int32_data.extend([i % 2 for i in range(n)])
        elif dt in (TP.INT8, TP.INT16, TP.INT32):
            tp.int32_data.extend([i - 1 for i in range(n)])
        else:
            tp.int32_data.extend([(i * 5) % 200 for i in range(n)])
    elif field == "string_data":
        pool = [b"s0", b"cat\x00\x00", b"\x00", b"\xff\xfe", b"", b"a\x00b", "\u00e9".encode()]
        tp.string_data.extend([pool[i % len(pool)] for i in range(n)])
    if doc is not None:
        tp.doc_string = doc
    for i in range(meta):
        e = tp.metadata_props.add()
        e.key, e.value = f"mk{i}", f"mv{i}"
    return tp


def external_tensor(dt, dims, entries, name="e"):
    tp = TP(name=name, data_type=dt, dims=list(dims), data_location=TP.EXTERNAL)
    for k, v in entries:
        e = tp.external_data.add()
        e.key, e.value = k, v
    return tp


def gen_tensors(tier):
    """Leaf family: TensorProto."""
    dims_all = [[], [0], [3], [2, 2]]
    for dt in ALL_DTYPES:
        for dims in dims_all:
            yield tensor(dt, dims, "raw_data")
            if _nelem(dims) > 0:
                yield tensor(dt, dims, typed_field(dt))
    for dims in dims_all + [[7]]:
        yield tensor(TP.STRING, dims, "string_data", name="s")
    for doc, meta in itertools.product([None, "", "doc"], [0, 1, 2]):
        yield tensor(TP.FLOAT, [3], "raw_data", doc=doc, meta=meta)
        yield tensor(TP.INT64, [2], "int64_data", doc=doc, meta=meta)
    ent = [("location", "w.bin"), ("offset", "128"), ("length", "12"), ("checksum", "abc")]
    for r in range(1, 5):
        for sub in itertools.combinations(ent[1:], r - 1):
            yield external_tensor(TP.FLOAT, [3], [ent[0]] + list(sub))
    # locations that are legal but not in normalised form, and entries in an unusual order
    for loc in ("./w.bin", "sub//w.bin", "a/./b.bin", "a/../b.bin", "w.bin/", "../up.bin", "/abs/w.bin", "w b.bin", "wé.bin"):
        yield external_tensor(TP.FLOAT, [3], [("location", loc), ("offset", "4"), ("length", "12")])
    yield external_tensor(TP.FLOAT, [3], [("length", "12"), ("offset", "4"), ("location", "w.bin")])
    yield external_tensor(TP.FLOAT, [3], [("location", "w.bin"), ("offset", "0")])
    t = external_tensor(TP.INT4, [5], [("location", "sub/dir/w.bin"), ("offset", "0"), ("length", "3")])
    t.doc_string = "ext doc"
    e = t.metadata_props.add()
    e.key, e.value = "k", "v"
    yield t
    t = tensor(TP.FLOAT, [1], "raw_data", name="")
    yield t


# ---------------------------------------------------------------------------
# types


def _shape_variants():
    out = [None]
    s = onnx.TensorShapeProto()
    out.append(s)  # rank 0
    s = onnx.TensorShapeProto()
    d = s.dim.add()
    d.dim_value = 3
    d = s.dim.add()
    d.dim_param = "N"
    s.dim.add()  # unset dim
    out.append(s)
    s = onnx.TensorShapeProto()
    d = s.dim.add()
    d.dim_value = 0
    d.denotation = "DATA_BATCH"
    d = s.dim.add()
    d.dim_param = "M + 1"
    d.denotation = "DATA_CHANNEL"
    d = s.dim.add()
    d.denotation = "only-denotation"
    out.append(s)
    return out


def tensor_type(elem, shape, sparse=False, den=None):
    t = onnx.TypeProto()
    tt = t.sparse_tensor_type if sparse else t.tensor_type
    tt.elem_type = elem
    if shape is not None:
        tt.shape.CopyFrom(shape)
    if den is not None:
        t.denotation = den
    return t


def wrap(kind, inner, den=None):
    t = onnx.TypeProto()
    (t.sequence_type if kind == "seq" else t.optional_type).elem_type.CopyFrom(inner)
    if den is not None:
        t.denotation = den
    return t


def gen_types(tier):
    leaves = []
    for elem in (TP.FLOAT, TP.INT64, TP.STRING, TP.BFLOAT16, TP.INT4):
        for shape in _shape_variants():
            for sparse in (False, True):
                for den in (None, "TENSOR", ""):
                    leaves.append(tensor_type(elem, shape, sparse, den))
    yield from leaves
    base = [tensor_type(TP.FLOAT, s, False, d) for s in _shape_variants() for d in (None, "IMAGE")]
    base += [tensor_type(TP.INT64, _shape_variants()[2], True, None)]
    lvl1 = [wrap(k, b, d) for k in ("seq", "opt") for b in base for d in (None, "outer")]
    yield from lvl1
    lvl2 = [wrap(k, b, d) for k in ("seq", "opt") for b in lvl1[:: 1 if tier == "thorough" else 3] for d in (None, "mid")]
    yield from lvl2
    lvl3 = [wrap(k, b, None) for k in ("seq", "opt") for b in lvl2[:: 2 if tier == "thorough" else 7]]
    yield from lvl3


def value_info(name, type_proto, doc=None, meta=0):
    vi = onnx.ValueInfoProto(name=name)
    if type_proto is not None:
        vi.type.CopyFrom(type_proto)
    if doc is not None:
        vi.doc_string = doc
    for i in range(meta):
        e = vi.metadata_props.add()
        e.key, e.value = f"vk{i}", f"vv{i}"
    return vi


def gen_value_infos(tier):
    for t in gen_types(tier):
        yield value_info("v", t)
    ft = tensor_type(TP.FLOAT, _shape_variants()[2])
    for doc, meta in itertools.product([None, "", "d"], [0, 1, 2]):
        yield value_info("v", ft, doc, meta)
    yield value_info("", ft)


# ---------------------------------------------------------------------------
# attributes


def small_graph(name="body", capture=None, nodes=1):
    g = onnx.GraphProto(name=name)
    i = g.input.add()
    i.CopyFrom(value_info("bi", tensor_type(TP.FLOAT, None)))
    prev = "bi"
    for k in range(nodes):
        n = g.node.add()
        n.op_type = "Add"
        n.name = f"{name}_n{k}"
        n.input.extend([prev, capture or "bi"])
        n.output.append(f"{name}_o{k}")
        prev = f"{name}_o{k}"
    o = g.output.add()
    o.CopyFrom(value_info(prev, tensor_type(TP.FLOAT, None)))
    return g


def gen_attributes(tier):
    A = onnx.AttributeProto
    mk = []

    def attr(name, type_, setter, doc=None):
        a = onnx.AttributeProto(name=name, type=type_)
        setter(a)
        if doc is not None:
            a.doc_string = doc
        return a

    for doc in (None, "", "adoc"):
        mk.append(attr("f", A.FLOAT, lambda a: setattr(a, "f", 1.5), doc))
        mk.append(attr("f0", A.FLOAT, lambda a: setattr(a, "f", 0.0), doc))
        mk.append(attr("i", A.INT, lambda a: setattr(a, "i", -3), doc))
        mk.append(attr("i0", A.INT, lambda a: setattr(a, "i", 0), doc))
        mk.append(attr("s", A.STRING, lambda a: setattr(a, "s", b"str\xff"), doc))
        mk.append(attr("s0", A.STRING, lambda a: setattr(a, "s", b""), doc))
        mk.append(attr("t", A.TENSOR, lambda a: a.t.CopyFrom(tensor(TP.FLOAT, [2], "raw_data", name="at")), doc))
        mk.append(attr("t2", A.TENSOR, lambda a: a.t.CopyFrom(tensor(TP.INT64, [2], "int64_data", name="")), doc))
        mk.append(attr("g", A.GRAPH, lambda a: a.g.CopyFrom(small_graph()), doc))
        mk.append(attr("fs", A.FLOATS, lambda a: a.floats.extend([0.0, 2.5]), doc))
        mk.append(attr("fs0", A.FLOATS, lambda a: None, doc))
        mk.append(attr("is", A.INTS, lambda a: a.ints.extend([0, 7, -1]), doc))
        mk.append(attr("is0", A.INTS, lambda a: None, doc))
        mk.append(attr("ss", A.STRINGS, lambda a: a.strings.extend([b"", b"x"]), doc))
        mk.append(attr("ss0", A.STRINGS, lambda a: None, doc))
        mk.append(attr("ts", A.TENSORS, lambda a: (a.tensors.add().CopyFrom(tensor(TP.FLOAT, [1], name="a")), a.tensors.add().CopyFrom(tensor(TP.INT4, [3], name="b"))), doc))
        mk.append(attr("gs", A.GRAPHS, lambda a: (a.graphs.add().CopyFrom(small_graph("b1")), a.graphs.add().CopyFrom(small_graph("b2", nodes=2))), doc))
        mk.append(attr("tp", A.TYPE_PROTO, lambda a: a.tp.CopyFrom(wrap("seq", tensor_type(TP.FLOAT, _shape_variants()[3], den="X"))), doc))
        mk.append(attr("tps", A.TYPE_PROTOS, lambda a: (a.type_protos.add().CopyFrom(tensor_type(TP.FLOAT, None)), a.type_protos.add().CopyFrom(wrap("opt", tensor_type(TP.INT64, _shape_variants()[1])))), doc))
    for type_ in (A.FLOAT, A.INT, A.STRING, A.TENSOR, A.GRAPH, A.FLOATS, A.INTS, A.STRINGS, A.TENSORS, A.GRAPHS, A.TYPE_PROTO):
        a = onnx.AttributeProto(name="r", type=type_, ref_attr_name="outer_attr")
        mk.append(a)
        a2 = onnx.AttributeProto(name="r2", type=type_, ref_attr_name="outer_attr", doc_string="rdoc")
        mk.append(a2)
    return mk


# ---------------------------------------------------------------------------
# nodes / graphs / models: a baseline model and a catalogue of deviations


def node(op, ins, outs, name="", domain=None, attrs=(), overload=None, doc=None, meta=0):
    n = onnx.NodeProto(op_type=op)
    n.input.extend(ins)
    n.output.extend(outs)
    if name is not None:
        n.name = name
    if domain is not None:
        n.domain = domain
    if overload:
        n.overload = overload
    if doc is not None:
        n.doc_string = doc
    for a in attrs:
        n.attribute.add().CopyFrom(a)
    for i in range(meta):
        e = n.metadata_props.add()
        e.key, e.value = f"nk{i}", f"nv{i}"
    return n


F = lambda shape=None: tensor_type(TP.FLOAT, shape)  # noqa: E731


def baseline(ir_version=10):
    m = onnx.ModelProto(ir_version=ir_version)
    op = m.opset_import.add()
    op.domain, op.version = "", 20
    g = m.graph
    g.name = "main"
    g.input.add().CopyFrom(value_info("x", F(_shape_variants()[2])))
    g.input.add().CopyFrom(value_info("c", tensor_type(TP.BOOL, _shape_variants()[1])))
    g.initializer.add().CopyFrom(tensor(TP.FLOAT, [3], "raw_data", name="w"))
    g.node.add().CopyFrom(node("Add", ["x", "w"], ["a"], "n_add"))
    g.node.add().CopyFrom(node("Relu", ["a"], ["b"], "n_relu"))
    g.output.add().CopyFrom(value_info("b", F(_shape_variants()[2])))
    return m


def _dev(fn):
    DEVIATIONS.append((fn.__name__[2:], fn))
    return fn


DEVIATIONS: list = []


@_dev
def d_ai_onnx_domain(m):
    m.graph.node[0].domain = "ai.onnx"
    m.opset_import[0].domain = "ai.onnx"


@_dev
def d_custom_domain_node(m):
    op = m.opset_import.add()
    op.domain, op.version = "custom.dom", 3
    m.graph.node.add().CopyFrom(node("MyOp", ["b", "", "x"], ["my1", "", "my3", ""], "n_my", domain="custom.dom", overload="ov1", doc="ndoc", meta=2))


@_dev
def d_duplicate_opset_imports(m):
    op = m.opset_import.add()
    op.domain, op.version = "ai.onnx.ml", 3
    op = m.opset_import.add()
    op.domain, op.version = "z.last", 1
    m.opset_import[0].domain = ""


@_dev
def d_model_fields(m):
    m.producer_name = "prod"
    m.producer_version = "1.2"
    m.domain = "dom"
    m.model_version = 7
    m.doc_string = "model doc"
    for k, v in (("zk", "1"), ("ak", "2")):
        e = m.metadata_props.add()
        e.key, e.value = k, v


@_dev
def d_graph_doc_and_metadata(m):
    m.graph.doc_string = "graph doc"
    for k, v in (("gz", "1"), ("ga", "")):
        e = m.graph.metadata_props.add()
        e.key, e.value = k, v


@_dev
def d_initializer_is_input(m):
    m.graph.input.add().CopyFrom(value_info("w", F(_shape_variants()[2])))


@_dev
def d_value_info_everywhere(m):
    g = m.graph
    g.value_info.add().CopyFrom(value_info("a", wrap("opt", F(_shape_variants()[3]), "den"), "adoc", 1))
    g.value_info.add().CopyFrom(value_info("w", tensor_type(TP.FLOAT, _shape_variants()[3], den="WT"), "wdoc", 2))
    g.value_info.add().CopyFrom(value_info("unreferenced", F()))


@_dev
def d_initializer_value_info_type_only(m):
    """An explicit value_info for a non-input initializer that is less specific than its tensor: a type without a shape."""
    m.graph.value_info.add().CopyFrom(value_info("w", tensor_type(TP.FLOAT, None)))


@_dev
def d_initializer_value_info_symbolic(m):
    """... and one whose dims are symbolic / unknown where the tensor is concrete, with a second initializer that has a name-only entry."""
    s = onnx.TensorShapeProto()
    s.dim.add().dim_param = "rows"
    m.graph.value_info.add().CopyFrom(value_info("w", tensor_type(TP.FLOAT, s)))
    m.graph.initializer.add().CopyFrom(tensor(TP.FLOAT, [2], "raw_data", name="w_bare"))
    m.graph.value_info.add().CopyFrom(value_info("w_bare", None))
    m.graph.node.add().CopyFrom(node("Identity", ["w_bare"], ["w_bare_o"], "n_w_bare"))


@_dev
def d_expression_dim_params(m):
    """dim_param texts that parse as arithmetic, in spellings a symbolic engine would print differently."""
    for nm, texts in (("a", ("N+1", "batch*2")), ("b2", ("seq-1", "N//2", "max(N,8)")), ("b3", ("1+N",))):
        sh = onnx.TensorShapeProto()
        for t in texts:
            sh.dim.add().dim_param = t
        m.graph.value_info.add().CopyFrom(value_info(nm, tensor_type(TP.FLOAT, sh), f"doc of {nm}", 1))
    m.graph.node.add().CopyFrom(node("Neg", ["a"], ["b2"], "n_b2"))
    m.graph.node.add().CopyFrom(node("Abs", ["b2"], ["b3"], "n_b3"))
    q = m.graph.quantization_annotation.add()
    q.tensor_name = "b2"
    e = q.quant_parameter_tensor_names.add()
    e.key, e.value = "SCALE_TENSOR", "w"


@_dev
def d_constant_nodes(m):
    """Constant nodes in every spelling; tensor attributes with an empty, an own and a value-equal name."""
    g = m.graph
    for i, tname in enumerate(("", "own_tensor_name", "k2")):
        n = node("Constant", [], [f"k{i}"], f"n_k{i}")
        a = n.attribute.add()
        a.name, a.type = "value", onnx.AttributeProto.TENSOR
        a.t.CopyFrom(tensor(TP.FLOAT, [3], "raw_data", name=tname))
        g.node.add().CopyFrom(n)
        g.node.add().CopyFrom(node("Add", ["a", f"k{i}"], [f"ak{i}"], f"n_ak{i}"))
    n = node("Constant", [], ["kf"], "n_kf")
    a = n.attribute.add()
    a.name, a.type, a.f = "value_float", onnx.AttributeProto.FLOAT, 1.5
    g.node.add().CopyFrom(n)
    g.node.add().CopyFrom(node("Mul", ["a", "kf"], ["akf"], "n_akf"))


@_dev
def d_output_listed_twice_annotated(m):
    """One node output at two graph-output positions, carrying a quantization annotation."""
    m.graph.output.add().CopyFrom(value_info("b", F(_shape_variants()[2])))
    q = m.graph.quantization_annotation.add()
    q.tensor_name = "b"
    e = q.quant_parameter_tensor_names.add()
    e.key, e.value = "SCALE_TENSOR", "w"


@_dev
def d_strings_attribute_not_utf8(m):
    n = m.graph.node[0]
    a = n.attribute.add()
    a.name, a.type = "raw_strings", onnx.AttributeProto.STRINGS
    a.strings.extend([b"\xff\xfe", b"ok"])
    b = n.attribute.add()
    b.name, b.type, b.s = "raw_string", onnx.AttributeProto.STRING, b"\xff\xfe"


@_dev
def d_generated_looking_names(m):
    """Values and nodes whose explicit names have the shape of the names the IR generates for unnamed objects."""
    g = m.graph
    g.node.add().CopyFrom(node("Neg", ["a"], ["val_0"], "node_Neg_0"))
    g.node.add().CopyFrom(node("Abs", ["val_0"], ["val_1"], "node_Abs_1"))
    g.node.add().CopyFrom(node("Relu", ["val_1"], ["val_2"], "node_2"))
    g.output.add().CopyFrom(value_info("val_2", F()))


@_dev
def d_external_initializers_sharing_a_region(m):
    """Two (tied) initializers stored in the same region of one data file, each with its own doc string and metadata,
    plus a third one viewing the same bytes with another shape."""
    g = m.graph
    for nm, dims, doc in (("tied_a", [3], "embedding"), ("tied_b", [3], "lm head"), ("tied_c", [1, 3], None)):
        t = external_tensor(TP.FLOAT, dims, [("location", "tied.bin"), ("offset", "16"), ("length", "12")], name=nm)
        if doc:
            t.doc_string = doc
            e = t.metadata_props.add()
            e.key, e.value = "role", doc
        g.initializer.add().CopyFrom(t)
        g.node.add().CopyFrom(node("Identity", [nm], [nm + "_o"], "n_" + nm))


@_dev
def d_value_info_without_type(m):
    m.graph.value_info.add().CopyFrom(value_info("a", None, "only a doc string"))


@_dev
def d_output_is_input(m):
    m.graph.output.add().CopyFrom(value_info("x", F(_shape_variants()[2])))


@_dev
def d_output_is_initializer_and_input(m):
    m.graph.input.add().CopyFrom(value_info("w", F()))
    m.graph.output.add().CopyFrom(value_info("w", F()))


@_dev
def d_quantization_annotations(m):
    for nm in ("x", "w", "a", "b"):
        q = m.graph.quantization_annotation.add()
        q.tensor_name = nm
        for k, v in (("SCALE_TENSOR", nm + "_scale"), ("ZERO_POINT_TENSOR", nm + "_zp")):
            e = q.quant_parameter_tensor_names.add()
            e.key, e.value = k, v


@_dev
def d_all_attribute_kinds(m):
    n = m.graph.node[1]
    for a in gen_attributes("quick"):
        if a.ref_attr_name or a.HasField("doc_string"):
            continue
        n.attribute.add().CopyFrom(a)


@_dev
def d_if_with_captures(m):
    g = m.graph
    then_g = small_graph("then_g", capture="a", nodes=2)
    del then_g.input[:]
    then_g.node[0].input[0] = "x"
    else_g = small_graph("else_g", capture="late", nodes=1)  # captures a value declared later in the outer graph
    del else_g.input[:]
    else_g.node[0].input[0] = "w"
    a1 = onnx.AttributeProto(name="then_branch", type=onnx.AttributeProto.GRAPH)
    a1.g.CopyFrom(then_g)
    a2 = onnx.AttributeProto(name="else_branch", type=onnx.AttributeProto.GRAPH)
    a2.g.CopyFrom(else_g)
    g.node.add().CopyFrom(node("If", ["c"], ["if_out"], "n_if", attrs=[a1, a2]))
    g.node.add().CopyFrom(node("Neg", ["b"], ["late"], "n_late"))
    g.output.add().CopyFrom(value_info("if_out", F()))


@_dev
def d_nested_if_initializer_in_body(m):
    g = m.graph
    inner = small_graph("inner_g", capture="x", nodes=1)
    del inner.input[:]
    inner.node[0].input[0] = "bw"
    a_in = onnx.AttributeProto(name="then_branch", type=onnx.AttributeProto.GRAPH)
    a_in.g.CopyFrom(inner)
    a_in2 = onnx.AttributeProto(name="else_branch", type=onnx.AttributeProto.GRAPH)
    a_in2.g.CopyFrom(inner)
    a_in2.g.name = "inner_g2"
    a_in2.g.node[0].name = "inner2_n0"
    a_in2.g.node[0].output[0] = "inner2_o0"
    a_in2.g.output[0].name = "inner2_o0"
    body = onnx.GraphProto(name="outer_body")
    body.initializer.add().CopyFrom(tensor(TP.FLOAT, [3], "float_data", name="bw"))
    body.node.add().CopyFrom(node("If", ["c"], ["body_if"], "n_inner_if", attrs=[a_in, a_in2]))
    body.output.add().CopyFrom(value_info("body_if", F()))
    body.value_info.add().CopyFrom(value_info("bw", F(_shape_variants()[3]), "body init doc"))
    a1 = onnx.AttributeProto(name="then_branch", type=onnx.AttributeProto.GRAPH)
    a1.g.CopyFrom(body)
    a2 = onnx.AttributeProto(name="else_branch", type=onnx.AttributeProto.GRAPH)
    a2.g.CopyFrom(body)
    a2.g.name = "outer_body2"
    g.node.add().CopyFrom(node("If", ["c"], ["nested_out"], "n_outer_if", attrs=[a1, a2]))
    g.output.add().CopyFrom(value_info("nested_out", F()))


@_dev
def d_function_with_attributes(m):
    op = m.opset_import.add()
    op.domain, op.version = "local", 1
    f = m.functions.add()
    f.name, f.domain = "Fn", "local"
    f.input.extend(["fx", "fy"])
    f.output.extend(["fo"])
    f.attribute.extend(["alpha", "zeta"])
    d = f.attribute_proto.add()
    d.name, d.type, d.i = "beta", onnx.AttributeProto.INT, 0
    d2 = f.attribute_proto.add()
    d2.name, d2.type = "gamma", onnx.AttributeProto.FLOATS
    d2.floats.extend([1.0])
    ra = onnx.AttributeProto(name="axis", type=onnx.AttributeProto.INT, ref_attr_name="beta")
    f.node.add().CopyFrom(node("Add", ["fx", "fy"], ["ft"], "f_add"))
    f.node.add().CopyFrom(node("Softmax", ["ft"], ["fo"], "f_sm", attrs=[ra], doc="fn node doc", meta=1))
    fo = f.opset_import.add()
    fo.domain, fo.version = "", 20
    f.doc_string = "function doc"
    e = f.metadata_props.add()
    e.key, e.value = "fk", "fv"
    call_attr = onnx.AttributeProto(name="alpha", type=onnx.AttributeProto.FLOAT, f=2.0)
    m.graph.node.add().CopyFrom(node("Fn", ["b", "x"], ["fn_out"], "n_call", domain="local", attrs=[call_attr]))
    m.graph.output.add().CopyFrom(value_info("fn_out", F()))


@_dev
def d_function_overloads_and_value_info(m):
    op = m.opset_import.add()
    op.domain, op.version = "local", 1
    for ov in ("", "fp16"):
        f = m.functions.add()
        f.name, f.domain = "G", "local"
        if ov:
            f.overload = ov
        f.input.extend(["gx"])
        f.output.extend(["go"])
        f.node.add().CopyFrom(node("Relu", ["gx"], ["go"], "g_relu"))
        fo = f.opset_import.add()
        fo.domain, fo.version = "", 20
        if m.ir_version >= 10:
            f.value_info.add().CopyFrom(value_info("go", F(_shape_variants()[3]), "fn vi doc"))
            f.value_info.add().CopyFrom(value_info("gx", tensor_type(TP.FLOAT, _shape_variants()[2], den="FNIN"), "fn input doc", 1))
    m.graph.node.add().CopyFrom(node("G", ["b"], ["g_out"], "n_g", domain="local", overload="fp16"))
    m.graph.output.add().CopyFrom(value_info("g_out", F()))


@_dev
def d_function_with_subgraph(m):
    """A model-local function whose body holds an If: both branches capture function-body values and
    carry their own value_info; the function-body value is typed through FunctionProto.value_info
    (IR >= 10) or through the experimental '<domain>::<name>/<value>' main-graph entry (IR < 10)."""
    op = m.opset_import.add()
    op.domain, op.version = "local", 1
    f = m.functions.add()
    f.name, f.domain = "H", "local"
    f.input.extend(["hx", "hc"])
    f.output.extend(["ho"])
    fo = f.opset_import.add()
    fo.domain, fo.version = "", 20
    then_g = onnx.GraphProto(name="h_then")
    then_g.node.add().CopyFrom(node("Add", ["ht", "hx"], ["h_then_o"], "h_then_add"))
    then_g.output.add().CopyFrom(value_info("h_then_o", tensor_type(TP.FLOAT, _shape_variants()[3])))
    else_g = onnx.GraphProto(name="h_else")
    else_g.node.add().CopyFrom(node("Relu", ["ht"], ["h_else_t"], "h_else_relu"))
    else_g.node.add().CopyFrom(node("Neg", ["h_else_t"], ["h_else_o"], "h_else_neg"))
    else_g.value_info.add().CopyFrom(value_info("h_else_t", tensor_type(TP.DOUBLE, _shape_variants()[1]), "inner doc"))
    else_g.output.add().CopyFrom(value_info("h_else_o", F()))
    a1 = onnx.AttributeProto(name="then_branch", type=onnx.AttributeProto.GRAPH)
    a1.g.CopyFrom(then_g)
    a2 = onnx.AttributeProto(name="else_branch", type=onnx.AttributeProto.GRAPH)
    a2.g.CopyFrom(else_g)
    f.node.add().CopyFrom(node("Neg", ["hx"], ["ht"], "h_neg"))
    # a reference attribute ahead of the attributes that carry the bodies
    aref = onnx.AttributeProto(name="h_note", type=onnx.AttributeProto.INT, ref_attr_name="h_level")
    f.attribute.append("h_level")
    f.node.add().CopyFrom(node("If", ["hc"], ["ho"], "h_if", attrs=[aref, a1, a2]))
    if m.ir_version >= 10:
        f.value_info.add().CopyFrom(value_info("ht", F(_shape_variants()[2]), "fn body doc"))
    else:
        m.graph.value_info.add().CopyFrom(value_info("local::H/ht", F(_shape_variants()[2]), "fn body doc"))
    hcall = node("H", ["b", "c"], ["h_out"], "n_h", domain="local")
    ha = hcall.attribute.add()
    ha.name, ha.type, ha.i = "h_level", onnx.AttributeProto.INT, 2
    m.graph.node.add().CopyFrom(hcall)
    m.graph.output.add().CopyFrom(value_info("h_out", F()))


def _fn_with_typed_body_value(m, domain, fname, vname, overload=None):
    op = m.opset_import.add()
    op.domain, op.version = domain, 1
    f = m.functions.add()
    f.name, f.domain = fname, domain
    if overload:
        f.overload = overload
    f.input.extend(["sx"])
    f.output.extend(["so"])
    fo = f.opset_import.add()
    fo.domain, fo.version = "", 20
    f.node.add().CopyFrom(node("Relu", ["sx"], [vname], "s_relu"))
    f.node.add().CopyFrom(node("Neg", [vname], ["so"], "s_neg"))
    if m.ir_version >= 10:
        f.value_info.add().CopyFrom(value_info(vname, F(_shape_variants()[2]), "typed body value"))
    else:
        m.graph.value_info.add().CopyFrom(value_info(f"{domain}::{fname}/{vname}", F(_shape_variants()[2]), "typed body value"))
    call = node(fname, ["b"], ["sep_out"], "n_sep", domain=domain, overload=overload)
    m.graph.node.add().CopyFrom(call)
    m.graph.output.add().CopyFrom(value_info("sep_out", F()))


@_dev
def d_function_value_name_with_slash(m):
    """A typed function-body value whose name contains '/', the separator of the experimental IR < 10 encoding
    '<domain>::<function>/<value>' (hierarchical value names are what exporters produce)."""
    _fn_with_typed_body_value(m, "seps", "F", "layer/act/out")


def separator_corner_models():
    """Function identifiers the experimental IR < 10 value-info encoding cannot express (malformed-input family only)."""
    out = []
    for label, (domain, fname, vname, overload) in (("function_name_with_slash", ("seps", "ns/F", "t", None)), ("domain_with_double_colon", ("a::b", "F", "t", None)),
                                                    ("overload_below_ir10", ("seps", "F", "t", "ov")), ("all_separators", ("a::b", "ns/F", "x/y", None))):
        for v in (9, 10):
            m = baseline(v)
            _fn_with_typed_body_value(m, domain, fname, vname, overload)
            if v < 10:
                # FunctionProto.value_info below IR 10 (a field that does not belong there, but is read all the same)
                m.functions[-1].value_info.add().CopyFrom(value_info(vname, F(_shape_variants()[2]), "typed body value"))
            out.append((f"{label}@{v}", m))
    return out


@_dev
def d_unsorted_nodes(m):
    n0, n1 = onnx.NodeProto(), onnx.NodeProto()
    n0.CopyFrom(m.graph.node[0])
    n1.CopyFrom(m.graph.node[1])
    m.graph.node[0].CopyFrom(n1)
    m.graph.node[1].CopyFrom(n0)


@_dev
def d_node_names_missing_and_duplicated(m):
    m.graph.node[0].ClearField("name")
    m.graph.node.add().CopyFrom(node("Neg", ["b"], ["dup1"], "n_relu"))


@_dev
def d_tensor_storage_mix(m):
    g = m.graph
    for i, (dt, fld) in enumerate([(TP.INT64, "int64_data"), (TP.BFLOAT16, "int32_data"), (TP.INT4, "raw_data"), (TP.UINT32, "uint64_data"), (TP.COMPLEX64, "float_data"), (TP.STRING, "string_data")]):
        g.initializer.add().CopyFrom(tensor(dt, [3] if dt == TP.STRING else [2], fld, name=f"init{i}", doc="idoc" if i % 2 else None, meta=i % 3))
    g.initializer.add().CopyFrom(external_tensor(TP.FLOAT, [4], [("location", "w.bin"), ("offset", "8"), ("length", "16")], name="ext_init"))


@_dev
def d_nested_types_on_values(m):
    g = m.graph
    g.input.add().CopyFrom(value_info("seq_in", wrap("seq", wrap("opt", tensor_type(TP.INT64, _shape_variants()[3], den="inner"), "mid"), "outer"), "seq doc", 1))
    g.input.add().CopyFrom(value_info("sparse_in", tensor_type(TP.FLOAT, _shape_variants()[2], sparse=True, den="SP")))
    g.node.add().CopyFrom(node("SequenceLength", ["seq_in"], ["seq_len"], "n_sl"))
    g.output.add().CopyFrom(value_info("seq_len", tensor_type(TP.INT64, _shape_variants()[1])))


@_dev
def d_device_configurations(m):
    if m.ir_version < 11:
        m.ir_version = 11
    c = m.configuration.add()
    c.name = "cfg_a"
    c.num_devices = 2
    c.device.extend(["d0", "d1"])
    c2 = m.configuration.add()
    c2.name = "cfg_b"
    c2.num_devices = 1
    n = m.graph.node[0]
    dc = n.device_configurations.add()
    dc.configuration_id = "cfg_a"
    dc.pipeline_stage = 1
    sp = dc.sharding_spec.add()
    sp.tensor_name = "x"
    sp.device.extend([0, -1, -2])
    me = sp.index_to_device_group_map.add()
    me.key = -1
    me.value.extend([0, 1])
    # several groups, listed in an order that is neither ascending nor descending by key
    me2 = sp.index_to_device_group_map.add()
    me2.key = -3
    me2.value.extend([1])
    me3 = sp.index_to_device_group_map.add()
    me3.key = -2
    me3.value.extend([1, 0])
    sd = sp.sharded_dim.add()
    sd.axis = 0
    ss = sd.simple_sharding.add()
    ss.dim_value = 4
    ss.num_shards = 2
    ss2 = sd.simple_sharding.add()
    ss2.dim_param = "K"
    ss2.num_shards = 1
    sp2 = dc.sharding_spec.add()
    sp2.tensor_name = "a"
    dc2 = n.device_configurations.add()
    dc2.configuration_id = "cfg_b"
    dc2.pipeline_stage = 0  # the first stage: a present field whose value is the default
    n1 = m.graph.node[1]
    dc3 = n1.device_configurations.add()
    dc3.configuration_id = "cfg_a"
    dc3.pipeline_stage = 0


@_dev
def d_device_configuration_in_function_body(m):
    """IR >= 11: annotated nodes at the top level of a model-local function and inside a control-flow body of it."""
    if m.ir_version < 11:
        m.ir_version = 11
    c = m.configuration.add()
    c.name = "cfg_fn"
    c.num_devices = 2
    c.device.extend(["CPU", "CUDA:0"])
    op = m.opset_import.add()
    op.domain, op.version = "localdc", 1
    f = m.functions.add()
    f.name, f.domain = "Sharded", "localdc"
    f.input.extend(["sx", "sc"])
    f.output.extend(["so"])
    fo = f.opset_import.add()
    fo.domain, fo.version = "", 20
    then_g = onnx.GraphProto(name="s_then")
    inner = node("Relu", ["st"], ["s_then_o"], "s_then_relu")
    dc = inner.device_configurations.add()
    dc.configuration_id = "cfg_fn"
    dc.pipeline_stage = 1
    sp = dc.sharding_spec.add()
    sp.tensor_name = "s_then_o"
    sd = sp.sharded_dim.add()
    sd.axis = 0
    ss = sd.simple_sharding.add()
    ss.num_shards = 2
    then_g.node.add().CopyFrom(inner)
    then_g.output.add().CopyFrom(value_info("s_then_o", F()))
    else_g = onnx.GraphProto(name="s_else")
    else_g.node.add().CopyFrom(node("Neg", ["st"], ["s_else_o"], "s_else_neg"))
    else_g.output.add().CopyFrom(value_info("s_else_o", F()))
    a1 = onnx.AttributeProto(name="then_branch", type=onnx.AttributeProto.GRAPH)
    a1.g.CopyFrom(then_g)
    a2 = onnx.AttributeProto(name="else_branch", type=onnx.AttributeProto.GRAPH)
    a2.g.CopyFrom(else_g)
    top = node("Neg", ["sx"], ["st"], "s_neg")
    dct = top.device_configurations.add()
    dct.configuration_id = "cfg_fn"
    dct.pipeline_stage = 0
    f.node.add().CopyFrom(top)
    # a reference attribute listed BEFORE the attributes that carry the bodies
    aref = onnx.AttributeProto(name="note", type=onnx.AttributeProto.INT, ref_attr_name="fn_note")
    f.attribute.append("fn_note")
    f.node.add().CopyFrom(node("If", ["sc"], ["so"], "s_if", attrs=[aref, a1, a2]))
    call = node("Sharded", ["b", "c"], ["sharded_out"], "n_sharded", domain="localdc")
    ca = call.attribute.add()
    ca.name, ca.type, ca.i = "fn_note", onnx.AttributeProto.INT, 3
    m.graph.node.add().CopyFrom(call)
    m.graph.output.add().CopyFrom(value_info("sharded_out", F()))


@_dev
def d_empty_names_and_optional_io(m):
    m.graph.node.add().CopyFrom(node("Dropout", ["b", "", ""], ["drop_out", ""], "n_drop"))
    m.graph.node.add().CopyFrom(node("Split", ["b"], ["", "sp2"], "n_split"))


def gen_models(tier, pairs=False):
    """Baseline + every single (+ every pair of) deviation(s), over ir versions."""
    versions = [3, 7, 8, 9, 10, 11, 13] if tier == "thorough" else [9, 10, 11]
    for v in versions:
        yield f"baseline@{v}", baseline(v)
    for name, fn in DEVIATIONS:
        vs = versions if name in ("function_overloads_and_value_info", "device_configurations", "function_with_attributes", "function_with_subgraph", "custom_domain_node", "function_value_name_with_slash") else [10]
        if name == "function_overloads_and_value_info":
            vs = [v for v in vs if v >= 10]  # FunctionProto.overload exists from IR version 10
        for v in vs:
            m = baseline(v)
            fn(m)
            yield f"{name}@{v}", m
    if pairs:
        for (n1, f1), (n2, f2) in itertools.combinations(DEVIATIONS, 2):
            m = baseline(11 if any("device_configuration" in x for x in (n1, n2)) else 10)
            try:
                f1(m)
                f2(m)
            except Exception:  # noqa: BLE001  two deviations may collide on a name
                continue
            if not _names_ok(m):
                continue
            yield f"{n1}+{n2}", m


def gen_triples():
    """Baseline + every triple of deviations from the catalogue."""
    for (n1, f1), (n2, f2), (n3, f3) in itertools.combinations(DEVIATIONS, 3):
        m = baseline(11 if any("device_configuration" in x for x in (n1, n2, n3)) else 10)
        try:
            f1(m)
            f2(m)
            f3(m)
        except Exception:  # noqa: BLE001  deviations may collide on a name
            continue
        if not _names_ok(m):
            continue
        yield f"{n1}+{n2}+{n3}", m


def _fn_holder(m):
    """A model-local function with one node, called from the main graph (returns the FunctionProto)."""
    op = m.opset_import.add()
    op.domain, op.version = "ctx", 1
    f = m.functions.add()
    f.name, f.domain = "Ctx", "ctx"
    f.input.extend(["kx"])
    f.output.extend(["ko"])
    fo = f.opset_import.add()
    fo.domain, fo.version = "", 20
    f.attribute.extend(["outer_attr"])
    f.node.add().CopyFrom(node("Relu", ["kx"], ["ko"], "k_relu"))
    m.graph.node.add().CopyFrom(node("Ctx", ["b"], ["ctx_call_o"], "n_ctx_call", domain="ctx"))
    m.graph.output.add().CopyFrom(value_info("ctx_call_o", F()))
    return f


def _if_holder(m):
    """An If node in the main graph; returns the then-branch GraphProto (the else branch is a plain copy of small_graph)."""
    then_g = small_graph("ctx_then", capture="a", nodes=1)
    del then_g.input[:]
    then_g.node[0].input[0] = "x"
    else_g = small_graph("ctx_else", capture="a", nodes=1)
    del else_g.input[:]
    else_g.node[0].input[0] = "x"
    a1 = onnx.AttributeProto(name="then_branch", type=onnx.AttributeProto.GRAPH)
    a1.g.CopyFrom(then_g)
    a2 = onnx.AttributeProto(name="else_branch", type=onnx.AttributeProto.GRAPH)
    a2.g.CopyFrom(else_g)
    m.graph.node.add().CopyFrom(node("If", ["c"], ["ctx_if_o"], "n_ctx_if", attrs=[a1, a2]))
    m.graph.output.add().CopyFrom(value_info("ctx_if_o", F()))
    return m.graph.node[-1].attribute[0].g


def gen_tensors_in_context(tier):
    """Every leaf tensor placed where a model can hold one: main-graph initializer, Constant value, initializer of a
    control-flow body, element of a TENSORS attribute inside a model-local function."""
    for i, t in enumerate(gen_tensors(tier)):
        if t.data_type == TP.STRING and False:
            continue
        lab = f"tensor#{i}:{TP.DataType.Name(t.data_type)}"
        if t.name:
            m = baseline(10)
            tt = m.graph.initializer.add()
            tt.CopyFrom(t)
            tt.name = "ctx_t"
            m.graph.node.add().CopyFrom(node("Identity", ["ctx_t"], ["ctx_o"], "n_ctx"))
            m.graph.output.add().CopyFrom(value_info("ctx_o", None))
            yield lab + "@main_initializer", m
            m = baseline(10)
            body = _if_holder(m)
            tt = body.initializer.add()
            tt.CopyFrom(t)
            tt.name = "ctx_bt"
            body.node.add().CopyFrom(node("Identity", ["ctx_bt"], ["ctx_bo"], "n_ctx_b"))
            yield lab + "@body_initializer", m
        m = baseline(10)
        a = onnx.AttributeProto(name="value", type=onnx.AttributeProto.TENSOR)
        a.t.CopyFrom(t)
        m.graph.node.add().CopyFrom(node("Constant", [], ["ctx_c"], "n_ctx_c", attrs=[a]))
        m.graph.output.add().CopyFrom(value_info("ctx_c", None))
        yield lab + "@constant_value", m
        m = baseline(10)
        f = _fn_holder(m)
        a = onnx.AttributeProto(name="values", type=onnx.AttributeProto.TENSORS)
        a.tensors.add().CopyFrom(t)
        a.tensors.add().CopyFrom(tensor(TP.FLOAT, [1], name="second"))
        f.node.add().CopyFrom(node("MyConsts", [], ["k_consts"], "k_consts_n", domain="custom.ctx", attrs=[a]))
        yield lab + "@function_tensors_attribute", m


def gen_types_in_context(tier):
    """Every leaf / nested type as the type of a graph input, of an intermediate value (value_info), of a graph
    output, of a control-flow body output and of a function-body value (IR >= 10)."""
    for i, t in enumerate(gen_types(tier)):
        lab = f"type#{i}"
        m = baseline(10)
        m.graph.input.add().CopyFrom(value_info("ctx_in", t, "ctx doc", 1))
        yield lab + "@graph_input", m
        m = baseline(10)
        m.graph.value_info.add().CopyFrom(value_info("a", t))
        yield lab + "@intermediate_value_info", m
        m = baseline(10)
        m.graph.node.add().CopyFrom(node("Identity", ["a"], ["ctx_o"], "n_ctx"))
        m.graph.output.add().CopyFrom(value_info("ctx_o", t))
        yield lab + "@graph_output", m
        m = baseline(10)
        body = _if_holder(m)
        body.output[0].type.CopyFrom(t)
        body.value_info.add().CopyFrom(value_info("x", t)) if False else None
        yield lab + "@body_output", m
        m = baseline(10)
        f = _fn_holder(m)
        f.value_info.add().CopyFrom(value_info("ko", t, "fn ctx doc"))
        f.value_info.add().CopyFrom(value_info("kx", t))
        yield lab + "@function_value_info", m


def gen_attributes_in_context(tier):
    """Every leaf attribute on a main-graph node, on a node of a control-flow body and on a node of a function
    (reference attributes only inside the function)."""
    for i, a in enumerate(gen_attributes(tier)):
        lab = f"attribute#{i}:{a.name}"
        if not a.ref_attr_name:
            m = baseline(10)
            m.graph.node[1].attribute.add().CopyFrom(a)
            yield lab + "@main_node", m
            m = baseline(10)
            body = _if_holder(m)
            body.node[0].attribute.add().CopyFrom(a)
            yield lab + "@body_node", m
        m = baseline(10)
        f = _fn_holder(m)
        f.node[0].attribute.add().CopyFrom(a)
        yield lab + "@function_node", m


def _names_ok(m):
    seen = set()
    for n in m.graph.node:
        for o in n.output:
            if o and o in seen:
                return False
            seen.add(o)
    vis = [v.name for v in m.graph.value_info]
    if len(vis) != len(set(vis)):
        return False
    io = {i.name for i in m.graph.input} | {o.name for o in m.graph.output}
    if io & set(vis):
        return False  # a second, conflicting descriptor for a graph input/output is not well formed
    qa = [q.tensor_name for q in m.graph.quantization_annotation]
    if len(qa) != len(set(qa)):
        return False  # two annotations for one tensor (two deviations annotating the same value) is not well formed
    ins = [i.name for i in m.graph.input]
    outs = [o.name for o in m.graph.output]
    opsets = {}
    return len(ins) == len(set(ins)) and (opsets is not None) and len(outs) >= 1


# ---------------------------------------------------------------------------
# normaliser (B5)


def _norm_domain(d):
    return "" if d == "ai.onnx" else d


def _sort_repeated(field, key):
    items = sorted(list(field), key=key)
    del field[:]
    field.extend(items)


def _norm_meta(holder):
    if len(holder.metadata_props):
        _sort_repeated(holder.metadata_props, lambda e: (e.key, e.value))


def _norm_tensor(t):
    _norm_meta(t)
    # external_data is a key/value list like metadata_props: the order of its entries carries no information
    _sort_repeated(t.external_data, lambda e: (e.key, e.value))
    if t.HasField("doc_string") and t.doc_string == "":
        t.ClearField("doc_string")


def _norm_type(t):
    kind = t.WhichOneof("value")
    if kind in ("sequence_type", "optional_type"):
        _norm_type(getattr(t, kind).elem_type)


def _norm_vi(vi):
    _norm_meta(vi)
    if vi.HasField("doc_string") and vi.doc_string == "":
        vi.ClearField("doc_string")
    if vi.HasField("type"):
        _norm_type(vi.type)
        if vi.type.WhichOneof("value") is None and not vi.type.denotation:
            vi.ClearField("type")


def _norm_attr(a):
    if a.HasField("doc_string") and a.doc_string == "":
        a.ClearField("doc_string")
    if a.HasField("t"):
        _norm_tensor(a.t)
    for t in a.tensors:
        _norm_tensor(t)
    if a.HasField("g"):
        _norm_graph(a.g)
    for g in a.graphs:
        _norm_graph(g)


def _norm_node(n):
    n.domain = _norm_domain(n.domain)
    if n.domain == "":
        n.ClearField("domain")
    while len(n.output) and n.output[-1] == "":
        del n.output[-1]
    _norm_meta(n)
    for f in ("doc_string", "name", "overload"):
        if n.HasField(f) and getattr(n, f) == "":
            n.ClearField(f)
    for a in n.attribute:
        _norm_attr(a)


def _norm_graph(g, is_main=False, extra_names=()):
    names = {i.name for i in g.input} | {o.name for o in g.output} | {t.name for t in g.initializer} | set(extra_names)
    for n in g.node:
        names |= set(n.output)
    init_names = {t.name for t in g.initializer}
    keep = [vi for vi in g.value_info if vi.name in names and vi.name not in init_names]
    # value-info of initializers may be added by the library: drop on both sides unless it carries
    # information beyond what the tensor implies (doc, metadata, denotation, nested type)
    implied = {}
    for t in g.initializer:
        iv = onnx.ValueInfoProto(name=t.name)
        iv.type.tensor_type.elem_type = t.data_type
        iv.type.tensor_type.shape.SetInParent()
        for d in t.dims:
            iv.type.tensor_type.shape.dim.add().dim_value = d
        implied[t.name] = iv
    for vi in g.value_info:
        if vi.name not in init_names:
            continue
        bare = onnx.ValueInfoProto(name=vi.name)
        probe = onnx.ValueInfoProto()
        probe.CopyFrom(vi)
        if probe.HasField("doc_string") and probe.doc_string == "":
            probe.ClearField("doc_string")
        # droppable: exactly what the library adds by itself (the tensor's dtype and dims), or an entry that says nothing
        if probe == implied[vi.name] or probe == bare:
            continue
        keep.append(vi)
    keep = sorted(keep, key=lambda v: v.name)
    del g.value_info[:]
    g.value_info.extend(keep)
    for vi in itertools.chain(g.input, g.output, g.value_info):
        _norm_vi(vi)
    for t in g.initializer:
        _norm_tensor(t)
    for n in g.node:
        _norm_node(n)
    _norm_meta(g)
    for f in ("doc_string",):
        if g.HasField(f) and getattr(g, f) == "":
            g.ClearField(f)
    if len(g.quantization_annotation):
        for q in g.quantization_annotation:
            _sort_repeated(q.quant_parameter_tensor_names, lambda e: (e.key, e.value))
        _sort_repeated(g.quantization_annotation, lambda q: q.tensor_name)


def _has_denotation(t):
    if t.denotation:
        return True
    kind = t.WhichOneof("value")
    if kind in ("tensor_type", "sparse_tensor_type"):
        tt = getattr(t, kind)
        return tt.HasField("shape") and any(d.denotation for d in tt.shape.dim)
    if kind in ("sequence_type", "optional_type"):
        return _has_denotation(getattr(t, kind).elem_type)
    return False


def _norm_opsets(field):
    seen = {}
    for o in field:
        seen[(_norm_domain(o.domain))] = o.version
    del field[:]
    for d, v in sorted(seen.items()):
        o = field.add()
        if d:
            o.domain = d
        o.version = v


def normalise_model(m):
    m = _copy(m)
    _norm_opsets(m.opset_import)
    extra = set()
    if m.ir_version < 10:
        # below IR 10 the types of function-body values live in the main graph's value_info under the experimental
        # name '<domain>::<function>/<value>': such an entry is referenced when that value exists in that function
        for f in m.functions:
            fnames = set(f.input) | set(f.output)
            for n in f.node:
                fnames |= set(n.output)
            extra |= {f"{f.domain}::{f.name}/{v}" for v in fnames if v}
    _norm_graph(m.graph, True, extra)
    _norm_meta(m)
    for f in ("producer_name", "producer_version", "domain", "doc_string"):
        if m.HasField(f) and getattr(m, f) == "":
            m.ClearField(f)
    if m.HasField("model_version") and m.model_version == 0:
        m.ClearField("model_version")
    for f in m.functions:
        f.domain = _norm_domain(f.domain)
        _norm_opsets(f.opset_import)
        for n in f.node:
            _norm_node(n)
        for a in f.attribute_proto:
            _norm_attr(a)
        _norm_meta(f)
        if f.HasField("doc_string") and f.doc_string == "":
            f.ClearField("doc_string")
        names = set(f.input) | set(f.output)
        for n in f.node:
            names |= set(n.output)
        keep = sorted([vi for vi in f.value_info if vi.name in names], key=lambda v: v.name)
        del f.value_info[:]
        f.value_info.extend(keep)
        for vi in f.value_info:
            _norm_vi(vi)
    fs = sorted(list(m.functions), key=lambda f: (f.domain, f.name, f.overload))
    del m.functions[:]
    m.functions.extend(fs)
    return m


def _copy(p):
    q = type(p)()
    q.CopyFrom(p)
    return q


def normalise(p):
    if isinstance(p, onnx.ModelProto):
        return normalise_model(p)
    q = _copy(p)
    if isinstance(q, onnx.TensorProto):
        _norm_tensor(q)
    elif isinstance(q, onnx.ValueInfoProto):
        _norm_vi(q)
    elif isinstance(q, onnx.AttributeProto):
        _norm_attr(q)
    elif isinstance(q, onnx.NodeProto):
        _norm_node(q)
    elif isinstance(q, onnx.GraphProto):
        _norm_graph(q)
    return q


def proto_diff(a, b, path="", out=None, limit=8):
    """Path-level differences between two messages of the same type."""
    out = [] if out is None else out
    if len(out) >= limit:
        return out
    if type(a) is not type(b):
        out.append((path, "type", type(a).__name__, type(b).__name__))
        return out
    if not hasattr(a, "DESCRIPTOR"):
        if a != b:
            out.append((path, "value", repr(a)[:60], repr(b)[:60]))
        return out
    for fd in a.DESCRIPTOR.fields:
        va, vb = getattr(a, fd.name), getattr(b, fd.name)
        p = f"{path}.{fd.name}"
        if fd.is_repeated:
            if len(va) != len(vb):
                out.append((p, "len", len(va), len(vb)))
                continue
            for i, (x, y) in enumerate(zip(va, vb)):
                if fd.type == fd.TYPE_MESSAGE:
                    proto_diff(x, y, f"{p}[{i}]", out, limit)
                elif x != y and not (isinstance(x, float) and x != x and y != y):
                    out.append((f"{p}[{i}]", "value", repr(x)[:60], repr(y)[:60]))
        elif fd.type == fd.TYPE_MESSAGE:
            ha, hb = a.HasField(fd.name), b.HasField(fd.name)
            if ha != hb:
                out.append((p, "presence", ha, hb))
            elif ha:
                proto_diff(va, vb, p, out, limit)
        else:
            try:
                ha, hb = a.HasField(fd.name), b.HasField(fd.name)
            except ValueError:
                ha = hb = True
            if ha != hb and va != vb:
                out.append((p, "presence", ha, hb))
            elif va != vb and not (isinstance(va, float) and va != va and vb != vb):
                out.append((p, "value", repr(va)[:60], repr(vb)[:60]))
    return out


_ = (np, helper)
