#!/usr/bin/env python3
"""tools/seedtable.py <tag>: markdown table of the seeded changes whose id contains <tag> (for DESIGN.md section 8)."""
import glob, json, re, sys
tag = sys.argv[1]
print("| seeded | what it needs to manifest | caught by (first clauses reported) |")
print("|---|---|---|")
for s in sorted(glob.glob('/verif/seeded/*/meta.json')):
    sid = s.split('/')[-2]
    if tag not in sid:
        continue
    m = json.load(open(s))
    needs = re.sub(r"\s+", " ", m.get('needs', '') or '').replace('|', '/')
    if len(needs) > 230:
        needs = needs[:227].rsplit(' ', 1)[0] + " …"
    caught = []
    for k, v in m.get('checks', {}).items():
        if v.get('detected'):
            keys = [x.replace('key=', '').replace('|', '/') for x in v.get('keys', [])[:2]]
            caught.append(f"{k.split(':')[0]} `{'`, `'.join(keys)}`")
        else:
            caught.append(f"{k.split(':')[0]} MISSED")
    print(f"| {sid} | {needs} | {'; '.join(caught)} |")
