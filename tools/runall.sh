#!/bin/bash
# run every check of a tier on the current tree; prints one line per property
TIER=${1:-quick}
cd "$(dirname "$0")/.."
for p in C01 C02 C03 C04 C05 C06 C07 C08 C09 C10 C11 C12 C13 C14 C15 C16 C17 C18 C19 C20; do
  s=$(date +%s)
  out=$(./check $p --tier $TIER 2>&1); rc=$?
  e=$(date +%s)
  echo "$p rc=$rc $((e-s))s $(echo "$out" | grep -a -c '^VIOLATION') violations $(echo "$out" | grep -a -c '^KNOWN-FINDING') known"
  if [ $rc -ne 0 ]; then echo "$out" | grep -a -E "^VIOLATION|^  key|HARNESS" | head -5; fi
done
