#!/usr/bin/env python3
"""tools/seedstatus.py [substring]: one line per seeded change: confirmed, detected per check."""
import glob, json, sys
pat = sys.argv[1] if len(sys.argv) > 1 else ""
for s in sorted(glob.glob('/verif/seeded/*/meta.json')):
    sid = s.split('/')[-2]
    if pat not in sid:
        continue
    m = json.load(open(s))
    ch = m.get('checks', {})
    print(sid, 'confirmed=%s' % m.get('confirmed'), {k: (v.get('detected'), round(v.get('wall_s', 0))) for k, v in ch.items()}, m.get('tests_summary_with_change', '')[:45] if not m.get('confirmed') else '')
