#!/venv/bin/python
"""Ad-hoc mutant: tools/quickmut.py <PID> <file relative to src/onnx_ir> <old> <new> [--tests]
Applies one textual replacement in a private copy of /repo and runs ./check <PID> against it."""
import os, shutil, subprocess, sys
pid, rel, old, new = sys.argv[1:5]
copy = f"/dev/shm/quickmut-{os.getpid()}"
subprocess.run(f"git -C /repo worktree add --detach {copy} HEAD", shell=True, capture_output=True)
try:
    p = os.path.join(copy, "src/onnx_ir", rel)
    s = open(p).read()
    if s.count(old) != 1:
        print("pattern count", s.count(old)); sys.exit(2)
    open(p, "w").write(s.replace(old, new))
    if "--tests" in sys.argv:
        r = subprocess.run("/venv/bin/python -m pytest -q -p no:cacheprovider --timeout=900 --continue-on-collection-errors -n 8 2>&1 | tail -1", shell=True, cwd=copy, env=dict(os.environ, PYTHONPATH=f"{copy}/src"), capture_output=True, text=True)
        print("tests:", r.stdout.strip()[-120:])
    ev = f"/verif/evidence/{pid}.json"
    saved = open(ev).read() if os.path.exists(ev) else None
    r = subprocess.run(f"./check {pid} --tier quick", shell=True, cwd="/verif", env=dict(os.environ, VERIF_REPO=copy), capture_output=True, text=True)
    if saved is not None:
        open(ev, "w").write(saved)
    keys = [l.strip() for l in r.stdout.splitlines() if l.startswith("  key=")]
    print(f"exit={r.returncode}", keys[:4])
    if r.returncode not in (0, 1):
        print(r.stdout[-800:], r.stderr[-800:])
finally:
    subprocess.run(f"git -C /repo worktree remove --force {copy}", shell=True, capture_output=True)
    shutil.rmtree(copy, ignore_errors=True)
