#!/bin/bash
# tools/seedbatch.sh <srcroot> <tag> [PIDs...]: confirm + test every <srcroot>/<PID>/<k> as seeded/<PID>-<tag><k>
SRC=$1; TAG=$2; shift 2
cd "$(dirname "$0")/.."
PIDS=${@:-$(ls $SRC)}
for p in $PIDS; do for k in 1 2 3; do [ -f $SRC/$p/$k/patch.diff ] && echo "$SRC/$p/$k $p-$TAG$k $p"; done; done | \
  xargs -P 3 -L 1 /venv/bin/python tools/seedtest.py 2>&1 | grep -a -E "^\[|does not apply|cannot apply"
