#!/bin/bash
# tools/seedrebase.sh: check that every seeded patch still applies to /repo HEAD; rebase (3-way) those that do not
cd "$(dirname "$0")/.."
WT=/dev/shm/seedrebase-$$
git -C /repo worktree add --detach $WT HEAD >/dev/null 2>&1
for d in seeded/*/; do
  p=$d/patch.diff
  [ -f $p ] || continue
  if git -C $WT apply --check $PWD/$p 2>/dev/null; then continue; fi
  if git -C $WT apply --3way $PWD/$p >/dev/null 2>&1 && ! grep -rq '^<<<<<<<' $WT/src; then
    git -C $WT reset -q; git -C $WT diff > $p; echo "rebased $d"
  else
    echo "CONFLICT $d"
  fi
  git -C $WT reset -q --hard; git -C $WT clean -fdq
done
git -C /repo worktree remove --force $WT
