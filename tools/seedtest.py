#!/venv/bin/python
"""Confirm a seeded property-breaking change and run the checks against it.

usage: tools/seedtest.py <src_dir_with patch.diff/demo.py/meta.json> <seed-id> <PID> [more PIDs] [--tier quick] [--no-confirm]

1. confirm (scratch worktree of /repo HEAD under /dev/shm): patch applies, repo test-suite summary equals the
   baseline summary, demo exits 0 on the clean tree and non-zero with the patch;
2. copy to /verif/seeded/<seed-id>/ (patch.diff rebased onto current HEAD, demo.py, meta.json);
3. apply to /repo, run ./check <PID> for each PID, undo (git checkout -- .), record detected/missed.
"""
import json
import os
import shutil
import subprocess
import sys
import time

VERIF = os.path.dirname(os.path.dirname(os.path.abspath(__file__)))
BASE_SUMMARY = "1 failed, 3664 passed, 2 skipped, 2 errors"


def sh(cmd, cwd=None, env=None, timeout=3600):
    e = dict(os.environ)
    if env:
        e.update(env)
    p = subprocess.run(cmd, shell=True, cwd=cwd, env=e, capture_output=True, text=True, timeout=timeout)
    return p.returncode, p.stdout + p.stderr


def main():
    args = [a for a in sys.argv[1:] if not a.startswith("--")]
    flags = [a for a in sys.argv[1:] if a.startswith("--")]
    src, sid, pids = args[0], args[1], args[2:]
    tier = "quick"
    for f in flags:
        if f.startswith("--tier="):
            tier = f.split("=")[1]
    dst = os.path.join(VERIF, "seeded", sid)
    os.makedirs(dst, exist_ok=True)
    meta_path = os.path.join(dst, "meta.json")
    meta = {}
    if os.path.exists(meta_path):
        meta = json.load(open(meta_path))
    elif os.path.exists(os.path.join(src, "meta.json")):
        meta = {"origin": json.load(open(os.path.join(src, "meta.json")))}
    patch_src = os.path.join(src, "patch.diff") if not os.path.exists(os.path.join(dst, "patch.diff")) else os.path.join(dst, "patch.diff")
    demo_src = os.path.join(src, "demo.py") if not os.path.exists(os.path.join(dst, "demo.py")) else os.path.join(dst, "demo.py")

    rc, out = sh("git status --porcelain", cwd="/repo")
    if out.strip():
        print("refusing: /repo working tree is dirty:\n" + out)
        return 2

    if "--no-confirm" not in flags and not meta.get("confirmed"):
        wt = f"/dev/shm/seedverify-{sid}-{os.getpid()}"
        sh(f"git worktree add --detach {wt} HEAD", cwd="/repo")
        try:
            env = {"PYTHONPATH": f"{wt}/src", "PYTHONDONTWRITEBYTECODE": "1"}
            rc_clean, o1 = sh(f"/venv/bin/python {demo_src}", cwd=wt, env=env, timeout=600)
            rc, o = sh(f"git apply --3way {patch_src} || git apply {patch_src}", cwd=wt)
            if rc != 0:
                print("patch does not apply on current HEAD:\n" + o)
                meta["confirmed"] = False
                meta["confirm_error"] = "patch does not apply"
                json.dump(meta, open(meta_path, "w"), indent=1)
                return 3
            sh("git reset -q", cwd=wt)
            rc, rebased = sh("git diff", cwd=wt)
            rc_mut, o2 = sh(f"/venv/bin/python {demo_src}", cwd=wt, env=env, timeout=600)
            rc, t = sh("/venv/bin/python -m pytest -q -p no:cacheprovider --timeout=900 --continue-on-collection-errors -n 8 2>&1 | tail -1",
                       cwd=wt, env=env, timeout=1800)
            import re
            summary = re.sub(r"\x1b\[[0-9;]*m", "", t.strip())
            ok_tests = BASE_SUMMARY in summary
            meta.update({
                "property": pids[0],
                "confirmed": bool(rc_clean == 0 and rc_mut != 0 and ok_tests),
                "demo_exit_clean": rc_clean, "demo_exit_changed": rc_mut,
                "tests_summary_with_change": summary, "tests_equal_baseline": ok_tests,
                "confirmed_on_repo_head": sh("git rev-parse --short HEAD", cwd="/repo")[1].strip(),
                "ran": [f"PYTHONPATH=<wt>/src /venv/bin/python demo.py (clean, changed)",
                        "pytest -q -p no:cacheprovider --timeout=900 --continue-on-collection-errors -n 8 in a scratch worktree with the change"],
            })
            open(os.path.join(dst, "patch.diff"), "w").write(rebased)
            if os.path.abspath(demo_src) != os.path.abspath(os.path.join(dst, "demo.py")):
                shutil.copy(demo_src, os.path.join(dst, "demo.py"))
            o = meta.get("origin", {})
            meta.setdefault("breaks", o.get("summary", ""))
            meta.setdefault("needs", o.get("needs", ""))
            json.dump(meta, open(meta_path, "w"), indent=1)
            print(f"[{sid}] confirm: demo clean={rc_clean} changed={rc_mut} tests='{summary}' -> confirmed={meta['confirmed']}")
            if rc_clean != 0:
                print(o1[-1500:])
        finally:
            sh(f"git worktree remove --force {wt}", cwd="/repo")
            shutil.rmtree(wt, ignore_errors=True)
        if not meta["confirmed"]:
            return 3

    patch = os.path.join(dst, "patch.diff")
    use_copy = "--in-repo" not in flags
    env_extra = {}
    if use_copy:
        # run against a private copy of /repo (VERIF_REPO) so that /repo itself is never touched and
        # several seeded changes can be tried in parallel
        copy = f"/dev/shm/seedrepo-{sid}-{os.getpid()}"
        shutil.rmtree(copy, ignore_errors=True)
        sh(f"git worktree add --detach {copy} HEAD", cwd="/repo")
        rc, o = sh(f"git apply {patch}", cwd=copy)
        if rc != 0:
            print("cannot apply to the copy:\n" + o)
            sh(f"git worktree remove --force {copy}", cwd="/repo")
            return 3
        env_extra = {"VERIF_REPO": copy}
    else:
        rc, o = sh(f"git apply {patch}", cwd="/repo")
        if rc != 0:
            print("cannot apply to /repo:\n" + o)
            return 3
    results = meta.setdefault("checks", {})
    saved_ev = {}
    for pid in pids:
        ev = os.path.join(VERIF, "evidence", f"{pid}.json")
        saved_ev[ev] = open(ev).read() if os.path.exists(ev) else None
    try:
        for pid in pids:
            t0 = time.time()
            rc, o = sh(f"./check {pid} --tier {tier}", cwd=VERIF, timeout=7200, env=env_extra)
            viol = [l for l in o.splitlines() if l.startswith("VIOLATION")]
            keys = [l.strip() for l in o.splitlines() if l.startswith("  key=")]
            results[f"{pid}:{tier}"] = {"exit": rc, "detected": rc == 1 and bool(viol), "violations": viol[:5], "keys": keys[:8],
                                        "wall_s": round(time.time() - t0, 1)}
            print(f"[{sid}] ./check {pid} --tier {tier}: exit={rc} detected={rc == 1 and bool(viol)} {keys[:3]} ({time.time() - t0:.0f}s)")
            if rc not in (0, 1):
                print(o[-3000:])
    finally:
        # evidence written while the change was applied describes the changed tree: put the old files back
        for ev, content in saved_ev.items():
            if content is None:
                if os.path.exists(ev):
                    os.remove(ev)
            else:
                open(ev, "w").write(content)
        if use_copy:
            sh(f"git worktree remove --force {copy}", cwd="/repo")
            shutil.rmtree(copy, ignore_errors=True)
        else:
            sh("git checkout -- .", cwd="/repo")
            rc, out = sh("git status --porcelain", cwd="/repo")
            if out.strip():
                print("WARNING: /repo still dirty:\n" + out)
    json.dump(meta, open(meta_path, "w"), indent=1)
    # evidence files were rewritten by the run on the mutated tree: do not keep them
    return 0


if __name__ == "__main__":
    sys.exit(main())
